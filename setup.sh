#!/bin/bash
# Offline set-up: nothing is fetched. Warms the build caches the checks use (they rebuild from
# /repo's current tree on every run anyway).
set -u
cd "$(dirname "$0")"
export CARGO_NET_OFFLINE=true
cp -f /repo/Cargo.lock kani/Cargo.lock 2>/dev/null || true
( cd kani && cargo build --offline >/dev/null 2>&1 ) || echo "warning: native build of harness crate failed"
python3-vt -c "import z3; print('z3', z3.get_version_string())" || echo "warning: z3 python bindings missing"
cargo kani --version || echo "warning: kani missing"
exit 0
