//! Source of nondeterministic inputs for the harnesses.
//!
//! Under Kani every value is `kani::any()` (a solver variable).  In a native build the same
//! harness functions read their inputs from a replay queue filled from a counterexample
//! (`set_replay`), so that a solver model can be re-run against the real, natively compiled
//! library before it is reported.
#[cfg(not(kani))]
use std::cell::RefCell;

#[cfg(not(kani))]
thread_local! {
    static QUEUE: RefCell<std::collections::VecDeque<Vec<u8>>> = RefCell::new(Default::default());
}

#[cfg(not(kani))]
pub fn set_replay(vals: Vec<Vec<u8>>) {
    QUEUE.with(|q| *q.borrow_mut() = vals.into_iter().collect());
}

#[cfg(not(kani))]
fn pop(n: usize) -> Vec<u8> {
    let v = QUEUE.with(|q| q.borrow_mut().pop_front()).expect("ND-REPLAY-EXHAUSTED");
    assert!(v.len() == n, "ND-REPLAY-WIDTH-MISMATCH");
    v
}

pub trait Nd: Sized {
    fn nd() -> Self;
}

macro_rules! nd_int {
    ($($t:ty),*) => {$(
        impl Nd for $t {
            #[cfg(kani)]
            #[inline(always)]
            fn nd() -> Self { kani::any() }
            #[cfg(not(kani))]
            fn nd() -> Self {
                let b = pop(std::mem::size_of::<$t>());
                let mut a = [0u8; std::mem::size_of::<$t>()];
                a.copy_from_slice(&b);
                <$t>::from_le_bytes(a)
            }
        }
    )*};
}
nd_int!(isize, usize, u8, u16, u32, u64, i8, i16, i32, i64);

impl Nd for bool {
    #[cfg(kani)]
    #[inline(always)]
    fn nd() -> Self { kani::any() }
    #[cfg(not(kani))]
    fn nd() -> Self { pop(1)[0] != 0 }
}

impl Nd for char {
    #[cfg(kani)]
    #[inline(always)]
    fn nd() -> Self { kani::any() }
    #[cfg(not(kani))]
    fn nd() -> Self {
        let b = pop(4);
        char::from_u32(u32::from_le_bytes([b[0], b[1], b[2], b[3]])).expect("ND-REPLAY-BAD-CHAR")
    }
}

#[inline(always)]
pub fn any<T: Nd>() -> T {
    T::nd()
}

#[cfg(kani)]
#[inline(always)]
pub fn assume(b: bool) {
    kani::assume(b)
}

#[cfg(not(kani))]
pub fn assume(b: bool) {
    if !b {
        // A replayed model must satisfy every assumption of its harness.
        eprintln!("ND-ASSUME-FAILED");
        std::process::exit(97);
    }
}

/// `kani::cover!` under Kani, nothing natively.
#[macro_export]
macro_rules! cov {
    ($cond:expr, $msg:literal) => {
        #[cfg(kani)]
        kani::cover!($cond, $msg);
    };
}

/// Declares a proof harness that is also an ordinary function in native builds.
#[macro_export]
macro_rules! h {
    ($name:ident, $unwind:expr, $body:expr) => {
        #[cfg_attr(kani, kani::proof)]
        #[cfg_attr(kani, kani::unwind($unwind))]
        pub fn $name() {
            $body
        }
    };
}
