//! C21 harnesses (see DESIGN.md)
