//! C18 — FiniteDomain operations implement set semantics.
//!
//! Unit under proof: every public operation of /repo/src/state/fd.rs, compiled from the
//! current tree.  Inputs: `Interval(a..=b)` with symbolic bounds and `Sparse` domains built by
//! the real `From<Vec<isize>>` from vectors of *concrete length* (1..=3) with symbolic,
//! unsorted, possibly duplicated elements.  The oracle is membership in the denoted set,
//! evaluated on the *inputs* (`Spec::mem`) and on the raw representation of results
//! (`raw_mem`), never through another call of the code under proof.
//!
//! Window: values are `B + d`, `0 <= d <= W` (W = 8) for three bases B: centre (-4), the low
//! extreme (isize::MIN) and the high extreme (isize::MAX - 8).  Obligations without loops in
//! the implementation additionally run over the full isize range (`*_full`).
use crate::nd;
use crate::{cov, h};
use proto_vulcan::state::FiniteDomain;

pub const W: isize = 8;
pub const C: isize = -4;
pub const LOW: isize = isize::MIN;
pub const HIGH: isize = isize::MAX - W;

#[derive(Clone, Copy)]
pub enum Spec {
    I(isize, isize),
    S([isize; 3], usize),
}

impl Spec {
    #[inline(always)]
    pub fn mem(&self, k: isize) -> bool {
        match self {
            Spec::I(a, b) => *a <= k && k <= *b,
            Spec::S(v, n) => {
                (*n > 0 && v[0] == k) || (*n > 1 && v[1] == k) || (*n > 2 && v[2] == k)
            }
        }
    }
    /// Cardinality of the denoted set, counted over the window of base `b`.
    #[inline(always)]
    pub fn card(&self, b: isize) -> usize {
        let mut n = 0usize;
        let mut d = 0isize;
        while d <= W {
            if self.mem(b + d) {
                n += 1;
            }
            d += 1;
        }
        n
    }
}

#[inline(always)]
fn win(b: isize) -> isize {
    let d: isize = nd::any();
    nd::assume(0 <= d && d <= W);
    b + d
}

/// Narrow window (width 5) for the loop-heavy obligations of the quick tier.
#[inline(always)]
fn win_n(b: isize, w: isize) -> isize {
    let d: isize = nd::any();
    nd::assume(0 <= d && d <= w);
    b + d
}

pub fn mk_i(b: isize, w: isize) -> (FiniteDomain, Spec) {
    let lo = win_n(b, w);
    let hi = win_n(b, w);
    nd::assume(lo <= hi);
    (FiniteDomain::from(lo..=hi), Spec::I(lo, hi))
}

pub fn mk_i_full() -> (FiniteDomain, Spec) {
    let lo: isize = nd::any();
    let hi: isize = nd::any();
    nd::assume(lo <= hi);
    (FiniteDomain::from(lo..=hi), Spec::I(lo, hi))
}

pub fn mk_s1(b: isize, w: isize) -> (FiniteDomain, Spec) {
    let x = win_n(b, w);
    (FiniteDomain::from(vec![x]), Spec::S([x, x, x], 1))
}

pub fn mk_s2(b: isize, w: isize) -> (FiniteDomain, Spec) {
    let x = win_n(b, w);
    let y = win_n(b, w);
    (FiniteDomain::from(vec![x, y]), Spec::S([x, y, y], 2))
}

pub fn mk_s3(b: isize, w: isize) -> (FiniteDomain, Spec) {
    let x = win_n(b, w);
    let y = win_n(b, w);
    let z = win_n(b, w);
    (FiniteDomain::from(vec![x, y, z]), Spec::S([x, y, z], 3))
}

/// Sparse domain through the `From<&[isize]>` constructor.
pub fn mk_s2_slice(b: isize, w: isize) -> (FiniteDomain, Spec) {
    let x = win_n(b, w);
    let y = win_n(b, w);
    let a = [x, y];
    (FiniteDomain::from(&a[..]), Spec::S([x, y, y], 2))
}

/// Membership read off the raw representation of a result.
#[inline(always)]
pub fn raw_mem(d: &FiniteDomain, k: isize) -> bool {
    match d {
        FiniteDomain::Interval(r) => *r.start() <= k && k <= *r.end(),
        FiniteDomain::Sparse(v) => {
            let mut found = false;
            let mut i = 0;
            while i < v.len() {
                if v[i] == k {
                    found = true;
                }
                i += 1;
            }
            found
        }
    }
}

#[inline(always)]
pub fn raw_nonempty(d: &FiniteDomain) -> bool {
    match d {
        FiniteDomain::Interval(r) => *r.start() <= *r.end(),
        FiniteDomain::Sparse(v) => v.len() > 0,
    }
}

/// `r` denotes exactly `{k : spec(k)}` as far as one symbolic `k` can tell, and is `None`
/// exactly when empty (`None` => k not in spec; `Some` => representation non-empty and, by
/// the membership equivalence applied to its own first element, spec non-empty).
#[inline(always)]
fn check_result(r: &Option<FiniteDomain>, k: isize, spec_k: bool) {
    match r {
        None => assert!(!spec_k, "None returned although the result set is not empty"),
        Some(d) => {
            assert!(raw_mem(d, k) == spec_k, "result membership differs from set semantics");
            assert!(raw_nonempty(d), "Some(empty domain) returned");
        }
    }
    cov!(r.is_none(), "result None reachable");
    cov!(r.is_some() && spec_k, "result Some with k inside reachable");
}

// ------------------------------------------------------------------------------------------
// Obligations (generic over the way the operands were built)
// ------------------------------------------------------------------------------------------

pub fn ob_intersect(a: (FiniteDomain, Spec), b: (FiniteDomain, Spec)) {
    let k: isize = nd::any();
    let r = a.0.intersect(&b.0);
    check_result(&r, k, a.1.mem(k) && b.1.mem(k));
}

pub fn ob_diff(a: (FiniteDomain, Spec), b: (FiniteDomain, Spec)) {
    let k: isize = nd::any();
    let r = a.0.diff(&b.0);
    check_result(&r, k, a.1.mem(k) && !b.1.mem(k));
}

pub fn ob_is_disjoint(a: (FiniteDomain, Spec), b: (FiniteDomain, Spec), base: isize) {
    let r = a.0.is_disjoint(&b.0);
    let mut common = false;
    let mut d = 0;
    while d <= W {
        if a.1.mem(base + d) && b.1.mem(base + d) {
            common = true;
        }
        d += 1;
    }
    assert!(r == !common, "is_disjoint differs from set semantics");
    cov!(r, "disjoint reachable");
    cov!(!r, "overlapping reachable");
}

pub fn ob_contains(a: (FiniteDomain, Spec)) {
    let k: isize = nd::any();
    let r = a.0.contains(k);
    assert!(r == a.1.mem(k), "contains differs from membership");
    cov!(r, "contains true reachable");
    cov!(!r, "contains false reachable");
}

pub fn ob_min_max(a: (FiniteDomain, Spec)) {
    let k: isize = nd::any();
    let lo = a.0.min();
    let hi = a.0.max();
    assert!(a.1.mem(lo), "min is not an element");
    assert!(a.1.mem(hi), "max is not an element");
    if a.1.mem(k) {
        assert!(lo <= k && k <= hi, "min/max are not bounds");
    }
    cov!(a.1.mem(k) && k == hi, "probe equal to max reachable");
}

pub fn ob_singleton(a: (FiniteDomain, Spec)) {
    let k: isize = nd::any();
    let j: isize = nd::any();
    let s = a.0.is_singleton();
    let v = a.0.singleton_value();
    // s  <=>  all members are equal (the set is non-empty by construction)
    if s {
        assert!(!(a.1.mem(k) && a.1.mem(j)) || k == j, "is_singleton on a set with two elements");
    }
    if a.1.mem(k) && a.1.mem(j) && k != j {
        assert!(!s, "is_singleton on a set with two elements");
    }
    match v {
        Some(x) => {
            assert!(s, "singleton_value without is_singleton");
            assert!(a.1.mem(x), "singleton_value is not the element");
        }
        None => assert!(!s, "is_singleton without singleton_value"),
    }
    cov!(s, "singleton reachable");
    cov!(!s, "non-singleton reachable");
}

/// `!is_singleton` => there really are two distinct elements (needs the cardinality, so it
/// is stated over the window).
pub fn ob_singleton_card(a: (FiniteDomain, Spec), base: isize) -> usize {
    let s = a.0.is_singleton();
    let n = a.1.card(base);
    assert!(s == (n == 1), "is_singleton differs from cardinality == 1");
    let v = a.0.singleton_value();
    assert!(v.is_some() == (n == 1), "singleton_value differs from cardinality == 1");
    cov!(n == 1, "cardinality 1 reachable");
    n
}

/// Same for domains that can have more than one element (adds the witness for that case).
pub fn ob_singleton_card_multi(a: (FiniteDomain, Spec), base: isize) {
    let n = ob_singleton_card(a, base);
    cov!(n > 1, "cardinality > 1 reachable");
}

pub fn ob_copy_before(a: (FiniteDomain, Spec)) {
    let k: isize = nd::any();
    let t: isize = nd::any();
    // the predicate shape used by ltefd: first element greater than the threshold
    let r = a.0.copy_before(|u| t < *u);
    check_result(&r, k, a.1.mem(k) && k <= t);
}

pub fn ob_drop_before(a: (FiniteDomain, Spec)) {
    let k: isize = nd::any();
    let t: isize = nd::any();
    // the predicate shape used by ltefd: first element at or above the threshold
    let r = a.0.drop_before(|v| t <= *v);
    check_result(&r, k, a.1.mem(k) && k >= t);
}

pub fn ob_iter_fwd(a: (FiniteDomain, Spec), base: isize) {
    let mut it = a.0.iter();
    let mut prev: Option<isize> = None;
    let mut count = 0usize;
    while let Some(x) = it.next() {
        assert!(a.1.mem(x), "iter yields a non-member");
        if let Some(p) = prev {
            assert!(p < x, "iter is not strictly ascending");
        }
        prev = Some(x);
        count += 1;
    }
    assert!(it.next().is_none(), "iter not fused at the end");
    assert!(count == a.1.card(base), "iter misses or repeats members");
    cov!(count > 1, "more than one element reachable");
}

pub fn ob_iter_bwd(a: (FiniteDomain, Spec), base: isize) {
    let mut it = a.0.iter();
    let mut prev: Option<isize> = None;
    let mut count = 0usize;
    while let Some(x) = it.next_back() {
        assert!(a.1.mem(x), "reverse iter yields a non-member");
        if let Some(p) = prev {
            assert!(p > x, "reverse iter is not strictly descending");
        }
        prev = Some(x);
        count += 1;
    }
    assert!(count == a.1.card(base), "reverse iter misses or repeats members");
    cov!(count > 1, "more than one element reachable");
}

pub fn ob_into_iter(a: (FiniteDomain, Spec), base: isize) {
    let spec = a.1;
    let mut it = a.0.into_iter();
    let mut prev: Option<isize> = None;
    let mut count = 0usize;
    while let Some(x) = it.next() {
        assert!(spec.mem(x), "into_iter yields a non-member");
        if let Some(p) = prev {
            assert!(p < x, "into_iter is not strictly ascending");
        }
        prev = Some(x);
        count += 1;
    }
    assert!(count == spec.card(base), "into_iter misses or repeats members");
    cov!(count > 1, "more than one element reachable");
}

pub fn ob_into_iter_bwd(a: (FiniteDomain, Spec), base: isize) {
    let spec = a.1;
    let mut it = a.0.into_iter();
    let mut prev: Option<isize> = None;
    let mut count = 0usize;
    while let Some(x) = it.next_back() {
        assert!(spec.mem(x), "reverse into_iter yields a non-member");
        if let Some(p) = prev {
            assert!(p > x, "reverse into_iter is not strictly descending");
        }
        prev = Some(x);
        count += 1;
    }
    assert!(count == spec.card(base), "reverse into_iter misses or repeats members");
    cov!(count > 1, "more than one element reachable");
}

/// Mixed-direction iteration: one element from the front, the rest from the back.
pub fn ob_iter_mixed(a: (FiniteDomain, Spec), base: isize) {
    let mut it = a.0.iter();
    let mut count = 0usize;
    let first = it.next();
    if let Some(f) = first {
        assert!(a.1.mem(f));
        count += 1;
        let mut prev: Option<isize> = None;
        while let Some(x) = it.next_back() {
            assert!(a.1.mem(x), "mixed iter yields a non-member");
            assert!(x > f, "mixed iter yields the front element again");
            if let Some(p) = prev {
                assert!(p > x, "mixed iter is not strictly descending from the back");
            }
            prev = Some(x);
            count += 1;
        }
    }
    assert!(count == a.1.card(base), "mixed iter misses or repeats members");
}

pub fn ob_eq(a: (FiniteDomain, Spec), b: (FiniteDomain, Spec), base: isize) {
    let r = a.0 == b.0;
    let mut same = true;
    let mut d = 0;
    while d <= W {
        if a.1.mem(base + d) != b.1.mem(base + d) {
            same = false;
        }
        d += 1;
    }
    assert!(r == same, "== differs from set equality");
    cov!(r, "equal reachable");
    cov!(!r, "unequal reachable");
}

// ------------------------------------------------------------------------------------------
// Harness families.  $w is the window width used for the operands (values base..=base+$w).
// ------------------------------------------------------------------------------------------

// ---- loop-free on intervals: full isize range
h!(c18_intersect_ii_full, 2, ob_intersect(mk_i_full(), mk_i_full()));
h!(c18_contains_i_full, 2, ob_contains(mk_i_full()));
h!(c18_minmax_i_full, 2, ob_min_max(mk_i_full()));
h!(c18_singleton_i_full, 2, ob_singleton(mk_i_full()));
h!(c18_singleton_exact_i_full, 2, {
    let (d, spec) = mk_i_full();
    if let Spec::I(lo, hi) = spec {
        assert!(d.is_singleton() == (lo == hi), "is_singleton differs from lo == hi");
        assert!(d.singleton_value().is_some() == (lo == hi), "singleton_value differs from lo == hi");
    }
});

macro_rules! family {
    ($m:ident, $base:expr) => {
        pub mod $m {
            use super::*;
            const B: isize = $base;
            // intersect
            h!(intersect_ii, 2, ob_intersect(mk_i(B, W), mk_i(B, W)));
            h!(intersect_is2, 5, ob_intersect(mk_i(B, W), mk_s2(B, W)));
            h!(intersect_s3i, 6, ob_intersect(mk_s3(B, W), mk_i(B, W)));
            h!(intersect_s2s2, 5, ob_intersect(mk_s2(B, W), mk_s2(B, W)));
            // diff, most of == and sparse into_iter: decided by Engine M (mirsym), see props/c18.py;
            // CBMC does not finish them (data-dependent Vec growth, P15) 
            // is_disjoint
            h!(disjoint_ii, 11, ob_is_disjoint(mk_i(B, 4), mk_i(B, 4), B));
            h!(disjoint_is2, 11, ob_is_disjoint(mk_i(B, 4), mk_s2(B, 4), B));
            h!(disjoint_s2i, 11, ob_is_disjoint(mk_s2(B, 4), mk_i(B, 4), B));
            h!(disjoint_s2s2, 11, ob_is_disjoint(mk_s2(B, W), mk_s2(B, W), B));
            h!(disjoint_s3s2, 11, ob_is_disjoint(mk_s3(B, 4), mk_s2(B, 4), B));
            // contains / min / max / singleton
            h!(contains_s1, 4, ob_contains(mk_s1(B, W)));
            h!(contains_s2, 5, ob_contains(mk_s2(B, W)));
            h!(contains_s3, 6, ob_contains(mk_s3(B, W)));
            h!(contains_s2_slice, 5, ob_contains(mk_s2_slice(B, W)));
            h!(minmax_i, 2, ob_min_max(mk_i(B, W)));
            h!(minmax_s1, 4, ob_min_max(mk_s1(B, W)));
            h!(minmax_s2, 5, ob_min_max(mk_s2(B, W)));
            h!(minmax_s3, 6, ob_min_max(mk_s3(B, W)));
            h!(singleton_i, 11, ob_singleton_card_multi(mk_i(B, W), B));
            h!(singleton_s1, 11, { ob_singleton_card(mk_s1(B, W), B); });
            h!(singleton_s2, 11, ob_singleton_card_multi(mk_s2(B, W), B));
            h!(singleton_s3, 11, ob_singleton_card_multi(mk_s3(B, W), B));
            h!(singleton_val_s2, 5, ob_singleton(mk_s2(B, W)));
            // copy_before / drop_before (propagator thresholds)
            h!(copy_before_i, 11, ob_copy_before(mk_i(B, W)));
            h!(copy_before_s2, 5, ob_copy_before(mk_s2(B, W)));
            h!(copy_before_s3, 6, ob_copy_before(mk_s3(B, W)));
            h!(drop_before_i, 11, ob_drop_before(mk_i(B, W)));
            h!(drop_before_s2, 5, ob_drop_before(mk_s2(B, W)));
            h!(drop_before_s3, 6, ob_drop_before(mk_s3(B, W)));
            // iteration
            h!(iter_fwd_i, 11, ob_iter_fwd(mk_i(B, W), B));
            h!(iter_bwd_i, 11, ob_iter_bwd(mk_i(B, W), B));
            h!(iter_mixed_i, 11, ob_iter_mixed(mk_i(B, W), B));
            h!(iter_fwd_s2, 11, ob_iter_fwd(mk_s2(B, W), B));
            h!(iter_bwd_s2, 11, ob_iter_bwd(mk_s2(B, W), B));
            h!(iter_fwd_s3, 11, ob_iter_fwd(mk_s3(B, W), B));
            h!(iter_bwd_s3, 11, ob_iter_bwd(mk_s3(B, W), B));
            h!(into_iter_i, 11, ob_into_iter(mk_i(B, W), B));
            h!(into_iter_bwd_i, 11, ob_into_iter_bwd(mk_i(B, W), B));
            // ==
            h!(eq_ii, 11, ob_eq(mk_i(B, 4), mk_i(B, 4), B));
            h!(eq_s1s1, 11, ob_eq(mk_s1(B, W), mk_s1(B, W), B));
        }
    };
}

family!(c18c, C);
family!(c18lo, LOW);
family!(c18hi, HIGH);

// ------------------------------------------------------------------------------------------
// Vacuity twin: the same operation sequence followed by `assert!(false)` must FAIL.
// ------------------------------------------------------------------------------------------
#[cfg_attr(kani, kani::proof)]
#[cfg_attr(kani, kani::unwind(8))]
pub fn c18_vacuity_twin_must_fail() {
    let a = mk_s2(C, 4);
    let b = mk_i(C, 4);
    let r = a.0.intersect(&b.0);
    let k: isize = nd::any();
    check_result(&r, k, a.1.mem(k) && b.1.mem(k));
    assert!(false, "vacuity twin reached");
}
