//! Proof harnesses over the real proto-vulcan code (path dependency on /repo).
//!
//! Built by `cargo kani --features hooks` every function declared with `h!` is a
//! `#[kani::proof]`; built natively (no feature, no hooks) the same functions are ordinary
//! functions fed from `nd::set_replay`, which is how solver counterexamples are replayed
//! against the real library.  One module per property; see /verif/DESIGN.md.
#![allow(dead_code, unused_imports, unused_macros, non_snake_case)]

pub mod nd;
pub mod c18;
pub mod c21;
