"""Runner for program-template checks (see prog.py): builds the template crate, dumps MIR,
explores every template symbolically, compares engine and reference answers, and turns
disagreements into native replay cases."""
import os
import re
import shutil
import subprocess
import time

import z3

import interp
import harness as H
import terms as TM
import prog as PG
import parallel
import mirgen
from common import log, VERIF, REPO
from values import Adt, NotEncodable, PathAbort, Panic
from models import val

WORK = os.path.join(VERIF, 'work')


def build(templates, tag):
    """templates: [(name, prog, nparams)] -> (lib mir path, template mir path, crate dir)"""
    crate = os.path.join(WORK, 'mirh-%s-%d' % (tag, os.getpid()))
    shutil.rmtree(crate, ignore_errors=True)
    PG.emit_crate(crate, templates)
    libmir = mirgen.dump_mir()
    tmir = mirgen.dump_mir(src=crate, tag='mirh')
    return libmir, tmir, crate


def inst_formula(t, g, binds):
    Tt = TM.T()
    k = t[0]
    if k == 'var':
        if t[1] in binds:
            return g == binds[t[1]]
        binds[t[1]] = g
        return z3.BoolVal(True)
    if k == 'num':
        return z3.And(Tt.is_num(g), Tt.n(g) == H.bv(t[1]))
    if k == 'bool':
        return z3.And(Tt.is_boolean(g), Tt.b(g) == z3.BoolVal(bool(t[1])))
    if k == 'str':
        return z3.And(Tt.is_str(g), Tt.s(g) == TM.str_id(t[1]))
    if k == 'nil':
        return Tt.is_nil(g)
    if k == 'cons':
        return z3.And(Tt.is_cons(g), inst_formula(t[1], Tt.hd(g), binds), inst_formula(t[2], Tt.tl(g), binds))
    if k == 'pair':
        return z3.And(Tt.is_pair(g), inst_formula(t[1], Tt.fst(g), binds), inst_formula(t[2], Tt.snd(g), binds))
    raise NotEncodable('inst of ' + k)


def ground_with(t, binds, hidden):
    Tt = TM.T()
    k = t[0]
    if k == 'var':
        if t[1] in binds:
            return binds[t[1]]
        return hidden(t[1])
    if k == 'num':
        return Tt.num(H.bv(t[1]))
    if k == 'bool':
        return Tt.boolean(z3.BoolVal(bool(t[1])))
    if k == 'str':
        return Tt.str(z3.IntVal(TM.str_id(t[1])))
    if k == 'nil':
        return Tt.nil
    if k == 'cons':
        return Tt.cons(ground_with(t[1], binds, hidden), ground_with(t[2], binds, hidden))
    if k == 'pair':
        return Tt.pair(ground_with(t[1], binds, hidden), ground_with(t[2], binds, hidden))
    raise NotEncodable('ground of ' + k)


def instances(answers, g, tag):
    """Quantifier-free formula: g is a ground instance of one of the answers (constraints that
    mention variables outside the answer term are ignored: they are always satisfiable)."""
    alts = []
    for i, a in enumerate(answers):
        binds = {}
        f = inst_formula(a[0], g, binds)
        cs = []
        for c in a[1]:
            vs = set()
            for k, v in c:
                PG.vars_of(k, vs)
                PG.vars_of(v, vs)
            if not vs <= set(binds):
                continue
            cs.append(z3.Or(*[ground_with(k, binds, None) != ground_with(v, binds, None) for k, v in c]))
        alts.append(z3.And(f, *cs))
    return z3.Or(*alts) if alts else z3.BoolVal(False)


def norm_str(s):
    return re.sub(r'_\.\d+', '_', s)


def term_vars(t, acc):
    if t[0] == 'var':
        acc.append((t[1], t[2] if len(t) > 2 else '_'))
    elif t[0] in ('cons', 'pair'):
        term_vars(t[1], acc)
        term_vars(t[2], acc)
    elif t[0] == 'comp':
        for a in t[2]:
            if isinstance(a, tuple) and a and a[0] != 'opaque':
                term_vars(a, acc)
    return acc


def reify_checks(m, result):
    """C03 obligations on the engine's own result objects (real LResult API run through the executor):
    (a) every variable in an answer term or in a reported constraint is a reified `_` variable,
    (b) LResult::constraints() yields exactly the store constraints with an operand among the
        `_` variables occurring anywhere in the answer term, and is_constrained() agrees.
    Returns {'named': [names], 'counts': [(expected, actual)], 'constrained': [(expected, actual)]}."""
    from values import Cell, Ref
    sp = TM.TermSpace.__new__(TM.TermSpace)
    sp.m = m
    sp.var_ids = {}
    rep = {'named': [], 'counts': [], 'constrained': []}
    rows = val(m, result)
    for row in rows.fields:
        lres = val(m, val(m, row).fields[0])
        tv = term_vars(sp.view(lres.fields[0]), [])
        rep['named'] += [n for _, n in tv if n != '_']
        anyids = {u for u, n in tv if n == '_'}
        store = val(m, lres.fields[1])
        while isinstance(store, Adt) and store.ty in ('Rc', 'Box'):
            store = val(m, store.fields[0])
        hs = val(m, store.fields[0])
        expected = set()
        for rc in hs.fields:
            c = val(m, rc)
            tag = c.tag
            inner = c
            while isinstance(inner, Adt) and inner.ty in ('Rc', 'Box'):
                inner = val(m, inner.fields[0])
            if inner.ty != 'DisequalityConstraint':
                continue
            hm = val(m, val(m, inner.fields[0]).fields[0])
            ops = []
            for e in hm.fields:
                k, v = sp.view(e.fields[0]), sp.view(e.fields[1])
                for side in (k, v):
                    rep['named'] += [n for _, n in term_vars(side, []) if n != '_']
                ops.append(k)
                if v[0] == 'var':
                    ops.append(v)
            if any(o[0] == 'var' and o[1] in anyids for o in ops):
                expected.add(tag)
        it = m.call('LResult::<U, E>::constraints', [Ref(Cell(lres))])
        from models import drain_all
        got = set()
        for x in drain_all(m, it):
            got.add(val(m, x).tag)
        rep['counts'].append((len(expected), len(got), expected == got))
        ic = m.call('LResult::<U, E>::is_constrained', [Ref(Cell(lres))])
        rep['constrained'].append((bool(expected), bool(ic)))
    return rep


def template_task(task):
    (name, progast, nparams, mode, limit, window, extra), libmir, tmir, crate = task[:4]
    initial = task[4] if len(task) > 4 else None
    frontier_target = task[5] if len(task) > 5 else None
    prog = interp.Program()
    prog.load(libmir, REPO)
    prog.load(tmir, crate)
    gen = {'R': name}
    if extra.get('user'):
        gen['U'] = extra['user']
    mk, mods = H.machine_factory(prog, generics=gen)
    out = {'name': name, 'issues': [], 'covers': set(), 'queries': 0, 'solver_s': 0.0, 'called': set(), 'samples': [],
           'answers_seen': 0}

    def scenario(m):
        ctx = m.ctx
        if extra.get('max_steps'):
            m.max_steps = extra['max_steps']
        params = []
        for i in range(nparams):
            p = ctx.fresh_bv('p%d' % i)
            ctx.assume(z3.And(p >= -window, p <= window))
            params.append(p)
        m.last_params = params
        ref = PG.Ref(ctx, params)
        fa = ref.answers(extra.get('ref_prog') or progast, extra.get('vars', ()))
        if extra.get('reify_balance'):
            fa = [(('cons', t_, ('cons', ('num', 0), ('nil',))), []) for t_, cs_ in fa]
        if ref.truncated:
            raise NotEncodable('reference interpreter truncated')
        if ref.infinite and mode not in ('subset', 'covers'):
            raise NotEncodable('infinite program must be compared in subset mode')
        res = m.call(name, list(params) + [limit])
        ea = PG.engine_answers(m, res)
        if len(ea) >= limit and mode not in ('subset', 'covers') and not (len(fa) < limit):
            # (an engine that returns `limit` answers where the finite reference has fewer is compared as it is: too many answers)
            raise NotEncodable('answer limit reached')
        m.reify_report = reify_checks(m, res) if not extra.get('user') else None
        m.second_run = None
        m.more_runs = None
        if extra.get('hash_orders'):
            # C09: the same query again, with the iteration order of the hash containers chosen by the solver
            m.hash_mode = 'fork'
            m.hash_forks_left = extra['hash_orders']
            res2 = m.call(name, list(params) + [limit])
            m.hash_mode = 'insertion'
            m.second_run = PG.engine_answers(m, res2)
            # ... and with EVERY hash iteration of the run reversed / rotated (order dependence deep in a run)
            m.more_runs = []
            for hm in extra.get('order_modes', ('reverse', 'rotate')):
                m.hash_mode = hm
                m.hash_flip = False
                resn = m.call(name, list(params) + [limit])
                m.hash_mode = 'insertion'
                m.more_runs.append((hm, PG.engine_answers(m, resn)))
        m.alt_runs = []
        for hm in extra.get('hash_modes', ()):
            # soundness / completeness must hold under every iteration order of the hash-based stores
            m.hash_mode = hm
            resn = m.call(name, list(params) + [limit])
            m.hash_mode = 'insertion'
            m.alt_runs.append((hm, PG.engine_answers(m, resn)))
        return params, ea, fa

    def on_path(r):
        ctx = r.ctx
        out['called'].update(r.machine.called)
        if r.status == 'notenc' and mode == 'covers' and 'step bound' in r.detail:
            # bounded fairness: the expected answers did not show up within the step bound
            rr, model = ctx.query()
            if rr == z3.sat:
                pv = [H.model_int(model, p) for p in getattr(r.machine, 'last_params', [])] + [0] * nparams
                add_issue('not-productive', 'the first %d answers are not produced within %d MIR steps (a fair interleaving produces them)' % (limit, r.machine.max_steps),
                          pv[:nparams], 'timeout', None)
            r.status = 'ok-flagged'
            return
        if r.status in ('notenc', 'abort'):
            return
        if r.status == 'panic':
            rr, model = ctx.query()
            if rr == z3.sat:
                pv = [H.model_int(model, p) for p in getattr(r.machine, 'last_params', [])] + [0] * nparams
                pv = pv[:nparams]
                add_issue('panic', 'program panics: %s' % r.detail[:120], pv, 'nopanic', None)
            return
        params, ea, fa = r.value
        rr_ = getattr(r.machine, 'reify_report', None)
        if rr_ is not None:
            if rr_['named']:
                rr, model = ctx.query()
                add_issue('unreified-variable', 'an answer (term or reported constraint) mentions the program variable(s) %s instead of reified `_` variables' % sorted(set(rr_['named'])),
                          [H.model_int(model, p) for p in params], 'reified', sorted(set(rr_['named'])))
            if any(not okk for _, _, okk in rr_['counts']) or any(e != a for e, a in rr_['constrained']):
                rr, model = ctx.query()
                add_issue('constraints-api', 'LResult::constraints()/is_constrained() disagree with the reported store: (expected, got) per answer = %s' % [(e, g) for e, g, _ in rr_['counts']],
                          [H.model_int(model, p) for p in params], 'ccount', sorted(e for e, _, _ in rr_['counts']))
        out['answers_seen'] += len(ea)
        out['covers'].add('answers' if ea else 'no-answers')
        second = getattr(r.machine, 'second_run', None)
        for hm, other in (getattr(r.machine, 'more_runs', None) or []):
            d3 = PG.compare(ctx, other, [(a[0], a[1]) for a in ea], 'sequence')
            if d3 is not None:
                rr, model = ctx.query()
                add_issue('order-dependent', 'two runs of the same query that differ only in the iteration order of the hash-based stores (insertion order vs every iteration %sd) give different answer sequences: %s vs %s (%s)' % (
                    hm[:-1] if hm == 'reverse' else hm, [PG.show_answer(a) for a in ea][:6], [PG.show_answer(a) for a in other][:6], d3), [H.model_int(model, p) for p in params], 'deterministic', None)
        if second is not None:
            d2 = PG.compare(ctx, second, [(a[0], a[1]) for a in ea], 'sequence')
            if d2 is not None:
                rr, model = ctx.query()
                add_issue('order-dependent', 'two runs of the same query that differ only in the iteration order of the hash-based stores give different answer sequences: %s vs %s (%s)' % (
                    [PG.show_answer(a) for a in ea][:6], [PG.show_answer(a) for a in second][:6], d2), [H.model_int(model, p) for p in params], 'deterministic', None)
        if rr_ is not None and rr_['named']:
            return      # the answers are not even closed; the semantic comparison below would be about something else
        for hm, other in (getattr(r.machine, 'alt_runs', None) or []):
            dh = PG.compare(ctx, other, fa, mode)
            if dh is not None and PG.compare(ctx, ea, fa, mode) is None:
                def is_ground_(t):
                    return t[0] != 'var' and all(is_ground_(x) for x in t[1:] if isinstance(x, tuple))
                rr, model = ctx.query()
                pv = [H.model_int(model, p) for p in params]
                if mode == 'multiset' and all(is_ground_(a[0]) and not a[1] for a in fa):
                    exp = [norm_str(PG.show_term(a[0], model)) for a in fa]
                    add_issue('answers-under-hash-order', 'with every iteration of the hash-based stores %s: %s (expected answers %s, engine answers %s; in insertion order the answers are right)' % (
                        'reversed' if hm == 'reverse' else 'rotated', dh, exp, [norm_str(PG.show_term(e[0], model)) for e in other]), pv, 'repeat-multiset', exp)
                else:
                    add_issue('answers-under-hash-order', 'with every iteration of the hash-based stores %s: %s' % ('reversed' if hm == 'reverse' else 'rotated', dh), pv, 'deterministic', None)
        diff = PG.compare(ctx, ea, fa, mode)
        if len(out['samples']) < 2:
            out['samples'].append({'template': name, 'path_condition': [str(c)[:80] for c in ctx.pc[:6]],
                                   'engine_answers': [PG.show_answer(a) for a in ea][:6],
                                   'reference_answers': [PG.show_answer(a) for a in fa][:6]})
        if diff is None:
            return
        # derive a replayable witness.  When every reference answer is ground the replay simply states the
        # expected answers (independent of which wrong answers this executor's run happened to produce)
        def is_ground(t):
            return t[0] != 'var' and all(is_ground(x) for x in t[1:] if isinstance(x, tuple))
        if mode not in ('subset', 'covers') and all(is_ground(a[0]) and not a[1] for a in fa) and all(not e[1] for e in ea):
            rr, model = ctx.query()
            pv = [H.model_int(model, p) for p in params]
            exp = [norm_str(PG.show_term(a[0], model)) for a in fa]
            add_issue('answers', '%s (expected answers %s, engine answers %s)' % (diff, exp, [norm_str(PG.show_term(e[0], model)) for e in ea]), pv, mode, exp)
            return
        g = z3.Const('g_inst', TM.T())
        ie, iff = instances(ea, g, 'e'), instances(fa, g, 'f')
        for kind, f1, f2 in (('spurious', ie, iff), ('lost', iff, ie)):
            rr, model = ctx.query(f1, z3.Not(f2), fresh=True)
            if rr == z3.sat:
                pv = [H.model_int(model, p) for p in params]
                gs = TM.rust_of_value(model, g)
                add_issue(kind, '%s: the ground instance q = %s is %s' % (
                    diff, gs, 'an instance of an engine answer but not a solution' if kind == 'spurious' else 'a solution that no engine answer covers'),
                    pv, 'instance', (gs, kind == 'lost'))
                return
        rr, model = ctx.query()
        pv = [H.model_int(model, p) for p in params]
        exp = [norm_str(PG.show_term(a[0], model)) for a in fa]
        add_issue('order-or-count', '%s (same ground instances; expected answers %s)' % (diff, exp), pv, mode, exp)

    def add_issue(key, what, pv, kind, data):
        if any(k == key for k, *_ in out['issues']):
            return
        out['issues'].append((key, what, pv, kind, data))

    stats = interp.explore(mk, scenario, on_path=on_path, time_budget=900, initial=initial, frontier_target=frontier_target)
    out['frontier'] = stats.get('frontier', [])
    if mode == 'covers' and any(i[0] == 'not-productive' for i in out['issues']):
        stats['notenc'] = max(0, stats['notenc'] - sum(v for k_, v in stats['notenc_reasons'].items() if 'step bound' in k_))
    out['stats'] = {k: stats[k] for k in ('paths', 'ok', 'panic', 'notenc', 'abort', 'solver_calls', 'steps', 'truncated', 'wall_s')}
    out['notenc_reasons'] = stats['notenc_reasons']
    return out


def case_source_user(prop, name, progast, nparams, pv, kind, data, what, path, extra):
    lets = ''.join('    let p%d: TC = LTerm::from(%d);\n' % (i, pv[i]) for i in range(nparams))
    goals = [PG.goal_src(g) for g in progast]
    if kind == 'instance':
        goals = goals + ['q == %s' % data[0]]
    body = ',\n        '.join(goals)
    if extra.get('reify_balance'):
        run = ('    let q: TC = LTerm::var("q");\n    let goal: Goal<CntUser, CE> = proto_vulcan!([\n        %s,\n        proto_vulcan::state::reify(q.clone())\n    ]);\n'
               '    let mut solver: Solver<CntUser, CE> = Solver::new((), false);\n'
               '    let mut stream = solver.start(&goal, State::new(CntUser::default()));\n'
               '    let mut got: Vec<String> = vec![];\n'
               '    while got.len() < 64 { match solver.next(&mut stream) { Some(st) => { let bal = st.user_state.with_calls - st.user_state.take_calls - (st.cstore_ref().iter().count() as isize);\n'
               '        let s = format!("[{}, {}]", st.smap_ref().walk_star(&q), bal); let mut o = String::new(); let mut it = s.chars().peekable();\n'
               '        while let Some(c) = it.next() { o.push(c); if c == \'_\' { if it.peek() == Some(&\'.\') { it.next(); while it.peek().map_or(false, |d| d.is_ascii_digit()) { it.next(); } } } }\n'
               '        got.push(o) } None => break } }\n' % body)
    else:
      run = ('    let q: TC = LTerm::var("q");\n    let goal: Goal<CntUser, CE> = proto_vulcan!([\n        %s\n    ]);\n'
           '    let mut solver: Solver<CntUser, CE> = Solver::new((), false);\n'
           '    let mut stream = solver.start(&goal, State::new(CntUser::default()));\n'
           '    let mut got: Vec<String> = vec![];\n'
           '    while got.len() < 64 { match solver.next(&mut stream) { Some(st) => got.push(format!("{}", st.smap_ref().walk_star(&q))), None => break } }\n' % body)
    if kind == 'instance':
        check = '    assert_eq!(got.len() > 0, %s, "q = %s must %sbe a solution");\n' % ('true' if data[1] else 'false', data[0].replace('"', '\\"'), '' if data[1] else 'not ')
    elif kind == 'nopanic':
        check = ''
    else:
        exp = ', '.join('"%s".to_string()' % e.replace('"', '\\"') for e in (data or []))
        check = '    let mut expected: Vec<String> = vec![%s];\n    got.sort();\n    expected.sort();\n    assert_eq!(got, expected);\n' % exp
    return '''// Counterexample found by mirsym/z3 for property %s, template %s: %s
// Replay: /verif/check %s --replay %s
#![allow(unused_imports, unused_variables, unused_mut, dead_code)]
use proto_vulcan::prelude::*;
use proto_vulcan::lterm::LTerm;
use proto_vulcan::relation::{diseqfd, distinctfd, infd, infdrange, ltefd, ltfd, minusfd, plusfd, timesfd};
use proto_vulcan::relation::{append, member};
use proto_vulcan::solver::{Solve, Solver};
use proto_vulcan::state::State;
use proto_vulcan::stream::Stream;
use std::rc::Rc;
%s
#[test]
fn replay() {
%s%s%s}
''' % (prop, name, what.replace('\n', ' '), prop, path, PG.USER_RS, lets, run, check)


def case_source(prop, name, progast, nparams, pv, kind, data, what, path, extra=None, limit=64):
    extra = extra or {}
    if extra.get('user'):
        return case_source_user(prop, name, progast, nparams, pv, kind, data, what, path, extra)
    lets = ''.join('    let p%d: T = LTerm::from(%d);\n' % (i, pv[i]) for i in range(nparams))
    lets += ''.join('    let %s: T = LTerm::var("%s");\n' % (v, v) for v in extra.get('vars', []))
    for cname, (ckind, elems) in extra.get('colls', {}).items():
        if ckind == 'vec':
            lets += '    let %s: Vec<T> = vec![%s];\n' % (cname, ', '.join('%s.clone()' % PG.term_src(e) if e[0] in ('var', 'par') else 'lterm!(%s)' % PG.term_src(e) for e in elems))
        else:
            lets += '    let %s: T = lterm!([%s]);\n' % (cname, ', '.join(PG.term_src(e) for e in elems))
    goals = [PG.goal_src(g) for g in progast]
    if kind == 'instance':
        goals = goals + ['q == %s' % data[0]]
    body = ',\n        '.join(goals)
    if kind == 'instance':
        check = '    let n = query.run().take(LIMIT).count();\n    assert_eq!(n > 0, %s, "q = %s must %sbe a solution");\n' % (
            'true' if data[1] else 'false', data[0].replace('"', '\\"'), '' if data[1] else 'not ')
    elif kind == 'nopanic':
        check = '    let _n = query.run().take(LIMIT).count();\n'
    elif kind == 'deterministic':
        check = ('    let re = |s: String| { let mut o = String::new(); let mut it = s.chars().peekable();\n'
                 '        while let Some(c) = it.next() { o.push(c); if c == \'_\' { if it.peek() == Some(&\'.\') { it.next(); while it.peek().map_or(false, |d| d.is_ascii_digit()) { it.next(); } } } } o };\n'
                 '    let first: Vec<String> = query.run().take(LIMIT).map(|r| re(format!("{}", r.q))).collect();\n'
                 '    for _ in 0..400 {\n        let again: Vec<String> = query.run().take(LIMIT).map(|r| re(format!("{}", r.q))).collect();\n'
                 '        assert_eq!(first, again, "the same query produced two different answer sequences in one process");\n    }\n')
    elif kind == 'timeout':
        check = '    let n = query.run().take(LIMIT).count();\n    assert_eq!(n, LIMIT);\n'
    elif kind == 'reified':
        names = ', '.join('"%s"' % n for n in data)
        check = ('    for r in query.run().take(LIMIT) {\n        let mut s = format!("{} {}", r.q, r);\n        for c in r.q.constraints() { s.push_str(&format!(" {}", c)); }\n'
                 '        for tok in s.split(|c: char| !(c.is_alphanumeric() || c == \'_\')) {\n'
                 '            assert!(![%s].contains(&tok), "answer `{}` mentions the program variable {}", s, tok);\n        }\n    }\n' % names)
    elif kind == 'ccount':
        check = ('    let mut got: Vec<usize> = query.run().take(LIMIT).map(|r| r.q.constraints().count()).collect();\n'
                 '    got.sort();\n    assert_eq!(got, vec![%s], "number of constraints reported per answer");\n' % ', '.join(str(x) for x in data))
    elif kind == 'repeat-multiset':
        exp = ', '.join('"%s".to_string()' % e.replace('"', '\\"') for e in data)
        check = ('    let re = |s: String| { let mut o = String::new(); let mut it = s.chars().peekable();\n'
                 '        while let Some(c) = it.next() { o.push(c); if c == \'_\' { if it.peek() == Some(&\'.\') { it.next(); while it.peek().map_or(false, |d| d.is_ascii_digit()) { it.next(); } } } } o };\n'
                 '    let mut expected: Vec<String> = vec![%s];\n    expected.sort();\n'
                 '    // the hash-based stores are seeded differently on every run: the answers must be right on each of them\n'
                 '    for _run in 0..300 {\n        let mut got: Vec<String> = query.run().take(LIMIT).map(|r| re(format!("{}", *r.q))).collect();\n        got.sort();\n        assert_eq!(got, expected);\n    }\n' % exp)
    else:
        exp = ', '.join('"%s".to_string()' % e.replace('"', '\\"') for e in data)
        srt = '    got.sort();\n    expected.sort();\n' if kind != 'sequence' else ''
        if kind == 'subset':
            srt = '    got.retain(|g| !expected.contains(g));\n    expected.clear();\n'
        if kind == 'covers':
            srt = '    got.truncate(LIMIT);\n    expected.retain(|e| !got.contains(e));\n    got.clear();\n'
        check = ('    let re = |s: String| { let mut o = String::new(); let mut it = s.chars().peekable();\n'
                 '        while let Some(c) = it.next() { o.push(c); if c == \'_\' { if it.peek() == Some(&\'.\') { it.next(); while it.peek().map_or(false, |d| d.is_ascii_digit()) { it.next(); } } } } o };\n'
                 '    let mut got: Vec<String> = query.run().take(LIMIT).map(|r| re(format!("{}", *r.q))).collect();\n'
                 '    let mut expected: Vec<String> = vec![%s];\n%s    assert_eq!(got, expected);\n' % (exp, srt))
    if kind in ('instance', 'multiset', 'sequence', 'subset', 'covers'):
        # the hash-based stores are seeded anew on every run of the query: a failure on any of 30 runs reproduces the violation
        check = '    for _run in 0..30 {\n' + check + '    }\n'
    return '''// Counterexample found by mirsym/z3 for property %s, template %s: %s
// Replay: /verif/check %s --replay %s
#![allow(unused_imports, unused_variables, unused_mut)]
use proto_vulcan::prelude::*;
use proto_vulcan::lterm::LTerm;
use proto_vulcan::operator::{anyo, cond, conda, condu, dfs, onceo};
use proto_vulcan::relation::{append, cons, distinct, empty, first, member, member1, permute, rember, rest};
use proto_vulcan::operator::{matche, matcha, matchu};
use proto_vulcan::relation::{diseqfd, distinctfd, infd, infdrange, ltefd, ltfd, minusfd, plusfd, timesfd};
use proto_vulcan::relation::clpz::plusz::plusz;
use proto_vulcan::relation::clpz::timesz::timesz;
use proto_vulcan::relation::always::always;
use proto_vulcan::relation::never::never;
use proto_vulcan::solver::{Solve, Solver};
use proto_vulcan::state::State;
use proto_vulcan::stream::Stream;
use std::rc::Rc;
type T = LTerm<DefaultUser, DefaultEngine<DefaultUser>>;
type TU = DefaultUser;
type TE = DefaultEngine<DefaultUser>;
#[derive(Debug)]
pub struct Succ { u: T, v: T, mode: usize }
impl Solve<TU, TE> for Succ {
    fn solve(&self, _solver: &Solver<TU, TE>, state: State<TU, TE>) -> Stream<TU, TE> {
        let n = if self.mode == 0 { self.u.get_number() } else { self.u.head().and_then(|h| h.get_number()) };
        match n {
            Some(n) => match state.unify(&LTerm::from(n + 1), &self.v) { Ok(st) => Stream::unit(Box::new(st)), Err(_) => Stream::empty() },
            None => Stream::empty(),
        }
    }
}
#[derive(Debug)]
pub struct SameVar { u: T, v: T, out: T }
impl Solve<TU, TE> for SameVar {
    fn solve(&self, _solver: &Solver<TU, TE>, state: State<TU, TE>) -> Stream<TU, TE> {
        let same = if self.u == self.v { 1 } else { 0 };
        match state.unify(&LTerm::from(same), &self.out) { Ok(st) => Stream::unit(Box::new(st)), Err(_) => Stream::empty() }
    }
}
pub fn samevar(u: T, v: T, out: T) -> Goal<TU, TE> { Goal::dynamic(Rc::new(SameVar { u, v, out })) }
pub fn succ(u: T, v: T) -> Goal<TU, TE> { Goal::dynamic(Rc::new(Succ { u, v, mode: 0 })) }
pub fn succ_head(u: T, v: T) -> Goal<TU, TE> { Goal::dynamic(Rc::new(Succ { u, v, mode: 1 })) }
%s
const LIMIT: usize = %d;

#[test]
fn replay() {
    // watchdog: a run that does not finish within 30 s counts as a failure (non-productive search)
    let (tx, rx) = std::sync::mpsc::channel();
    std::thread::spawn(move || { body(); let _ = tx.send(()); });
    match rx.recv_timeout(std::time::Duration::from_secs(30)) {
        Ok(()) => (),
        Err(std::sync::mpsc::RecvTimeoutError::Timeout) => panic!("the query did not produce its first {} answers within 30 s", LIMIT),
        Err(_) => panic!("the query panicked"),
    }
}

fn body() {
%s    let query = proto_vulcan_query!(|q| {
        %s
    });
%s}
''' % (prop, name, what.replace('\n', ' '), prop, path, PG.HELPERS_RS + (PG.STRUCT_DEFS if PG.uses_structs(progast) else ''), limit, lets, body, check)


def run_templates(rep, prop, templates, tag, window=3):
    """templates: [(name, prog, nparams, mode, limit)].  Fills `rep` (common.Report)."""
    import kanirun
    t0 = time.time()
    templates = [tuple(t) + ({},) if len(t) == 5 else tuple(t) for t in templates]
    libmir, tmir, crate = build([(n, p, k, ex) for n, p, k, mo, li, ex in templates], tag)
    tasks = [((n, p, k, mo, li, window, ex), libmir, tmir, crate) for n, p, k, mo, li, ex in templates]
    # stage 1: every template explores shortest-prefix-first until 24 sub-trees are pending; stage 2: all pending
    # sub-trees of all templates are explored in parallel and merged back per template
    stage1 = parallel.pmap(template_task, [t + (None, 24) for t in tasks])
    extra_tasks, owners = [], []
    for i, (st, res) in enumerate(stage1):
        if st == 'ok' and res.get('frontier'):
            fr = res['frontier']
            chunk = max(1, len(fr) // 12)
            for j in range(0, len(fr), chunk):
                extra_tasks.append(tasks[i] + (fr[j:j + chunk],))
                owners.append(i)
    stage2 = parallel.pmap(template_task, extra_tasks) if extra_tasks else []
    results = []
    for i, (st, res) in enumerate(stage1):
        if st != 'ok':
            results.append((st, res))
            continue
        parts = [res]
        bad = None
        for o, (st2, res2) in zip(owners, stage2):
            if o == i:
                if st2 != 'ok':
                    bad = (st2, res2)
                else:
                    parts.append(res2)
        if bad:
            results.append(bad)
            continue
        merged = parts[0]
        for pt in parts[1:]:
            for iss in pt['issues']:
                if not any(iss[0] == j[0] for j in merged['issues']):
                    merged['issues'].append(iss)
            merged['covers'] |= pt['covers']
            merged['called'] |= pt['called']
            merged['answers_seen'] += pt['answers_seen']
            merged['samples'] += pt['samples'][:1]
            for k_ in ('paths', 'ok', 'panic', 'notenc', 'abort', 'solver_calls', 'steps'):
                merged['stats'][k_] += pt['stats'][k_]
            merged['stats']['truncated'] = merged['stats']['truncated'] or pt['stats']['truncated']
            merged['stats']['wall_s'] = max(merged['stats']['wall_s'], pt['stats']['wall_s'])
            for k_, v_ in pt['notenc_reasons'].items():
                merged['notenc_reasons'][k_] = merged['notenc_reasons'].get(k_, 0) + v_
        results.append(('ok', merged))
    called = set()
    tot_paths = tot_steps = 0
    for (n, p, k, mo, li, ex), (st, res) in zip(templates, results):
        oname = '%s.%s' % (prop, n)
        src = ', '.join(PG.goal_src(g) for g in p)
        if st != 'ok':
            rep.obligation(oname, 'inconclusive', detail='worker error: ' + res[:300], program=src)
            continue
        called |= res['called']
        tot_paths += res['stats']['paths']
        tot_steps += res['stats']['steps']
        bound = dict(program=src[:300], params=k, window=window, mode=mo, paths=res['stats']['paths'], engine_answers=res['answers_seen'],
                     mir_steps=res['stats']['steps'], z3_queries=res['stats']['solver_calls'], wall_s=res['stats']['wall_s'])
        if res['stats']['notenc'] or res['stats']['truncated']:
            rep.obligation(oname, 'inconclusive', detail='notenc=%s truncated=%s' % (list(res['notenc_reasons'].items())[:2], res['stats']['truncated']), **bound)
            continue
        status = 'holds'
        for (key, what, pv, kind, data) in res['issues']:
            fullkey = '%s | %s' % (n, key)
            case = os.path.join(VERIF, 'replay', 'cases', '%s-%s.rs' % (prop, re.sub(r'[^A-Za-z0-9]+', '_', fullkey)))
            what_full = '%s with parameters %s: %s' % (src[:200], pv, what)
            os.makedirs(os.path.dirname(case), exist_ok=True)
            open(case, 'w').write(case_source(prop, n, p, k, pv, kind, data, what_full, case, ex, li if mo in ('subset', 'covers') else 64))
            outc = kanirun.replay_case(case)
            rep.extra['replayed'] = rep.extra.get('replayed', 0) + 1
            reproduced = any(okk for okk, _ in outc.values())
            tail = '; '.join('%s: %s' % (pp, tt[:200].replace('\n', ' ')) for pp, (okk, tt) in outc.items())
            if reproduced:
                new = rep.violation(fullkey, what_full + ' [native replay: %s]' % tail, case)
                status = 'violated' if new else ('known' if status == 'holds' else status)
            else:
                status = 'broken'
                rep.broke('ENCODING-MISMATCH %s: %s | %s' % (fullkey, what_full, tail))
        rep.obligation(oname, status, issues=[i[0] for i in res['issues']], **bound)
        rep.samples += res['samples'][:1]
    rep.functions += sorted(called)
    rep.extra['states'] = rep.extra.get('states', 0) + tot_paths
    rep.extra['transitions'] = rep.extra.get('transitions', 0) + tot_steps
    for pth in (libmir, tmir):
        try:
            os.remove(pth)
        except OSError:
            pass
    shutil.rmtree(crate, ignore_errors=True)
    log('[%s] %d templates in %.1fs' % (prop, len(templates), time.time() - t0))
