"""Helpers shared by the mirsym property scenarios: program loading, term construction through
the crate's own constructors, conversion of interpreter values into oracle-side terms."""
import os
import sys

import z3

import interp
import models
from values import Adt, Cell, Ref, Lazy, UNIT, Panic, NotEncodable, PathAbort, is_sym, load
from models import val

sys.setrecursionlimit(50000)

GENERICS = {'U': 'DefaultUser', 'E': 'StreamEngine', 'G': 'Goal'}

_PROGRAMS = {}


def program(mir_path, src_root):
    key = (mir_path, src_root)
    if key not in _PROGRAMS:
        p = interp.Program()
        p.load(mir_path, src_root)
        _PROGRAMS[key] = p
    return _PROGRAMS[key]


def machine_factory(prog, generics=None, mods=None):
    mods = mods or models.Models()
    g = dict(GENERICS)
    g.update(generics or {})

    def mk(ctx):
        return interp.Machine(prog, ctx, generics=g, models=mods)
    return mk, mods


def ref(v):
    return Ref(Cell(v))


# ---- term construction through the real constructors ------------------------------------------

def t_num(m, n):
    return m.call('<LTerm<U, E> as From<isize>>::from', [n])


def t_bool(m, b):
    return m.call('<LTerm<U, E> as From<bool>>::from', [b])


def t_var(m, name):
    return m.call('LTerm::<U, E>::var', [name])


def t_any(m):
    return m.call('LTerm::<U, E>::any', [])


def t_nil(m):
    return m.call('LTerm::<U, E>::empty_list', [])


def t_cons(m, h, t):
    return m.call('LTerm::<U, E>::cons', [h, t])


def t_str(m, s):
    return m.call('<LTerm<U, E> as From<&str>>::from', [s])


def t_char(m, c):
    return m.call('<LTerm<U, E> as From<char>>::from', [c])


def new_state(m):
    user = m.call('DefaultUser::new', [])
    return m.call('State::<U, E>::new', [user])


# ---- oracle-side view of terms -------------------------------------------------------------------

def inner(m, t):
    """LTermInner Adt of an LTerm value (or reference to one)."""
    v = val(m, t)
    if isinstance(v, Adt) and v.ty == 'LTerm':
        v = val(m, v.fields[0])
    if isinstance(v, Adt) and v.ty == 'Rc':
        v = val(m, v.fields[0])
    return v


def view(m, t):
    """('num', n) | ('bool', b) | ('char', c) | ('str', s) | ('var', id, name) | ('nil',)
    | ('cons', h, t) | ('compound', type, [children]) | ('user', x) | ('proj', t)"""
    v = inner(m, t)
    if not isinstance(v, Adt) or v.ty != 'LTermInner':
        raise NotEncodable('not a term: %r' % (v,))
    names = m.p.enums['LTermInner']
    k = names[v.var]
    if k == 'Val':
        lv = val(m, v.fields[0])
        lk = m.p.enums['LValue'][lv.var]
        x = val(m, lv.fields[0])
        if lk == 'String' and isinstance(x, Adt):
            x = x.fields[0]
        return ({'Number': 'num', 'Bool': 'bool', 'Char': 'char', 'String': 'str'}[lk], x)
    if k == 'Var':
        vid = val(m, v.fields[0])
        if isinstance(vid, Adt):
            vid = val(m, vid.fields[0])
        return ('var', vid, val(m, v.fields[1]))
    if k == 'Empty':
        return ('nil',)
    if k == 'Cons':
        return ('cons', view(m, v.fields[0]), view(m, v.fields[1]))
    if k == 'Compound':
        obj = val(m, v.fields[0])
        while isinstance(obj, Adt) and obj.ty in ('Rc', 'Box'):
            obj = val(m, obj.fields[0])
        return ('compound', obj.ty, obj)
    if k == 'User':
        return ('user', v.fields[0])
    if k == 'Projection':
        return ('proj', view(m, v.fields[0]))
    raise NotEncodable('term kind ' + k)


def smap_entries(m, state):
    """[(key_view, value_view)] of a State's substitution."""
    st = val(m, state)
    smap = val(m, st.fields[0])            # Rc<SMap>
    while isinstance(smap, Adt) and smap.ty in ('Rc',):
        smap = val(m, smap.fields[0])
    hm = val(m, smap.fields[0])
    return [(view(m, e.fields[0]), view(m, e.fields[1])) for e in hm.fields]


def walk_view(entries, t):
    """Oracle-side walk of a view through [(key, value)] entries (variables by id)."""
    seen = 0
    while t[0] == 'var':
        for k, v in entries:
            if k[0] == 'var' and k[1] == t[1]:
                t = v
                break
        else:
            return t
        seen += 1
        if seen > 1000:
            raise NotEncodable('cyclic substitution in oracle walk')
    return t


def cstore_len(m, state):
    st = val(m, state)
    cs = val(m, st.fields[1])
    while isinstance(cs, Adt) and cs.ty in ('Rc',):
        cs = val(m, cs.fields[0])
    return len(val(m, cs.fields[0]).fields)


def bv(x):
    return x if is_sym(x) else z3.BitVecVal(x, 64)


def model_int(model, x):
    if not is_sym(x):
        return x
    v = model.eval(x, model_completion=True).as_signed_long()
    return v
