"""Registrations of std models (see models.py)."""
import re

import z3

from values import (Adt, Cell, Ref, Lazy, FnItem, Opaque, UNIT, Panic, NotEncodable, PathAbort,
                    is_sym, load, store)
from interp import INT_TYPES, to_bv, wrap, type_head
from models import (NONE, some, ok, err, val, deref_ref, call_closure, truth, key_eq, structural_eq,
                    elems, iter_order, It, mk_iter, it_of, seq_iter, it_next, drain_all,
                    into_iter_value, innermost_ref, refs_into, clone_value)

INTS = ['isize', 'usize', 'i8', 'u8', 'i16', 'u16', 'i32', 'u32', 'i64', 'u64', 'char']


def int_info(key, default=('isize',)):
    for t in INTS:
        if key.raw and re.search(r'\b%s\b' % t, key.raw):
            return t, INT_TYPES[t]
    return default[0], INT_TYPES[default[0]]


def arith(op):
    def h(m, args, key):
        t, (w, s) = int_info(key)
        a, b = val(m, args[0]), val(m, args[1])
        name = {'add': 'Add', 'sub': 'Sub', 'mul': 'Mul', 'div': 'Div', 'rem': 'Rem'}[op]
        # Rust semantics with overflow checks on: overflow panics
        if name in ('Add', 'Sub', 'Mul'):
            r = m.binop(name + 'WithOverflow', a, b, t)
            res, ov = r.fields
            msg = 'attempt to %s with overflow' % {'Add': 'add', 'Sub': 'subtract', 'Mul': 'multiply'}[name]
            if is_sym(ov):
                # decided once per path (Ctx.deferred): the overflow predicates of 64-bit products are the
                # most expensive formulas around, and forking on each of them doubles the solver work
                m.ctx.deferred.append((ov, msg))
            elif ov:
                raise Panic(msg)
            return res
        zero = (b == 0) if not is_sym(b) else (b == z3.BitVecVal(0, w))
        if truth(m, zero, 'div by zero'):
            raise Panic('attempt to divide by zero' if name == 'Div' else 'attempt to calculate the remainder with a divisor of zero')
        if s:
            mn = -(1 << (w - 1))
            if is_sym(a) or is_sym(b):
                ovf = z3.And(to_bv(a, w) == z3.BitVecVal(mn, w), to_bv(b, w) == z3.BitVecVal(-1, w))
            else:
                ovf = (a == mn and b == -1)
            if truth(m, ovf, 'div overflow'):
                raise Panic('attempt to divide with overflow')
        return m.binop(name, a, b, t)
    return h


def cmp_op(op):
    def h(m, args, key):
        a, b = val(m, args[0]), val(m, args[1])
        if isinstance(a, str) or isinstance(b, str):
            return {'Eq': a == b, 'Ne': a != b, 'Lt': a < b, 'Le': a <= b, 'Gt': a > b, 'Ge': a >= b}[op]
        if isinstance(a, Adt) or isinstance(b, Adt):
            if op in ('Eq', 'Ne'):
                r = key_eq(m, args[0], args[1])
                return r if op == 'Eq' else not r
            raise NotEncodable('ordering on aggregates')
        t, _ = int_info(key)
        if isinstance(a, bool) or isinstance(b, bool) or (is_sym(a) and z3.is_bool(a)):
            t = 'bool'
        return m.binop(op, a, b, t)
    return h


def register(M):
    reg, regp = M.reg, M.regp

    # ---- Rc / Box ---------------------------------------------------------------------
    def rc_new(m, a, k):
        # every Rc allocation is a heap cell shared by all clones of the Rc: interior mutation
        # (LTerm::project's in-place overwrite, OnceCell, raw-pointer writes) is seen by every holder;
        # Rc::make_mut conservatively copies (observationally equivalent to the unique case)
        return Adt('Rc', 0, (Ref(Cell(a[0])),), m.ctx.new_tag())

    def box_new(m, a, k):
        return Adt('Box', 0, (a[0],))
    reg('Rc', None, 'new', rc_new)
    reg('Box', None, 'new', box_new)
    regp('Rc::new', rc_new)
    regp('Box::new', box_new)

    def box_new_uninit(m, a, k):
        # Box<MaybeUninit<T>> as the `vec![..]` expansion uses it: the code writes the payload through
        # the raw pointer found at `.0 (Unique) .0 (NonNull)` and then calls box_assume_init_into_vec_unsafe
        cell = Cell(Adt('MaybeUninit', 0, (UNIT, Adt('ManuallyDrop', 0, (Adt('MaybeDangling', 0, (None,)),)))))
        return Adt('Box', 0, (Adt('Unique', 0, (Adt('NonNull', 0, (Ref(cell),)),)),))
    reg('Box', None, 'new_uninit', box_new_uninit)

    def box_into_vec(m, a, k):
        b = val(m, a[0])
        ptr = b.fields[0].fields[0].fields[0]
        arr = load(Ref(ptr.cell, ptr.path + (1, 0, 0)), m.ctx.resolve)
        if not isinstance(arr, Adt):
            raise NotEncodable('box_assume_init_into_vec_unsafe on uninitialised box')
        return Adt('Vec', 0, arr.fields)
    regp('std::boxed::box_assume_init_into_vec_unsafe', box_into_vec)
    regp('boxed::box_assume_init_into_vec_unsafe', box_into_vec)

    def rc_deref(m, a, k):
        r = innermost_ref(m, a[0])
        rcv = load(r, m.ctx.resolve)
        if isinstance(rcv, Adt) and rcv.fields and isinstance(rcv.fields[0], Ref):
            return rcv.fields[0]              # shared heap cell (see rc_new)
        return Ref(r.cell, r.path + (0,))
    for t in ('Rc', 'Box'):
        reg(t, 'Deref', 'deref', rc_deref)
        reg(t, 'DerefMut', 'deref_mut', rc_deref)
        reg(t, 'AsRef', 'as_ref', rc_deref)
        reg(t, 'Borrow', 'borrow', rc_deref)
        reg(t, 'AsMut', 'as_mut', rc_deref)
        reg(t, 'Clone', 'clone', lambda m, a, k: val(m, a[0]))
    reg('Rc', None, 'clone', lambda m, a, k: val(m, a[0]))
    def rc_make_mut(m, a, k):
        r = innermost_ref(m, a[0])
        rcv = load(r, m.ctx.resolve)
        if isinstance(rcv, Adt) and rcv.fields and isinstance(rcv.fields[0], Ref):
            cur = load(rcv.fields[0], m.ctx.resolve)
            cell = Cell(cur)
            store(r, Adt('Rc', 0, (Ref(cell),), rcv.tag), m.ctx.resolve)
            return Ref(cell)
        return Ref(r.cell, r.path + (0,))
    reg('Rc', None, 'make_mut', rc_make_mut)
    reg('Rc', None, 'get_mut', lambda m, a, k: some(rc_deref(m, a, k)))
    reg('Rc', None, 'as_ptr', rc_deref)
    reg('Rc', None, 'ptr_eq', lambda m, a, k: val(m, a[0]).tag == val(m, a[1]).tag)
    reg('Rc', None, 'into_inner', lambda m, a, k: some(val(m, val(m, a[0]).fields[0])))
    reg('Rc', None, 'try_unwrap', lambda m, a, k: ok(val(m, val(m, a[0]).fields[0])))
    reg('Rc', None, 'strong_count', lambda m, a, k: (_ for _ in ()).throw(NotEncodable('Rc::strong_count')))
    reg('Box', 'Drop', 'drop', lambda m, a, k: UNIT)
    reg('Rc', 'From', 'from', lambda m, a, k: rc_new(m, [val(m, a[0]).fields[0]], k) if isinstance(val(m, a[0]), Adt) and val(m, a[0]).ty == 'Box' else rc_new(m, [a[0]], k))
    regp('std::mem::drop', lambda m, a, k: UNIT)
    regp('mem::drop', lambda m, a, k: UNIT)
    regp('drop', lambda m, a, k: UNIT)
    regp('std::mem::forget', lambda m, a, k: UNIT)

    def mem_replace(m, a, k):
        r = innermost_ref(m, a[0]) if isinstance(m.ctx.resolve(load(deref_ref(m, a[0]), m.ctx.resolve)), Ref) else deref_ref(m, a[0])
        old = load(r, m.ctx.resolve)
        store(r, a[1], m.ctx.resolve)
        return old
    regp('std::mem::replace', mem_replace)
    regp('mem::replace', mem_replace)

    def mem_swap(m, a, k):
        r1, r2 = deref_ref(m, a[0]), deref_ref(m, a[1])
        v1, v2 = load(r1, m.ctx.resolve), load(r2, m.ctx.resolve)
        store(r1, v2, m.ctx.resolve)
        store(r2, v1, m.ctx.resolve)
        return UNIT
    regp('std::mem::swap', mem_swap)
    regp('mem::swap', mem_swap)

    def mem_take(m, a, k):
        raise NotEncodable('mem::take')
    regp('std::mem::take', mem_take)

    # ---- primitives ----------------------------------------------------------------------
    for t in INTS + ['&' + x for x in INTS]:
        for opn in ('add', 'sub', 'mul', 'div', 'rem'):
            reg(t, {'add': 'Add', 'sub': 'Sub', 'mul': 'Mul', 'div': 'Div', 'rem': 'Rem'}[opn], opn, arith(opn))
    for t in INTS + ['bool', 'str', 'String', '()'] + ['&' + x for x in INTS + ['bool', 'str', 'String', 'char']]:
        reg(t, 'PartialEq', 'eq', cmp_op('Eq'))
        reg(t, 'PartialEq', 'ne', cmp_op('Ne'))
        reg(t, 'PartialOrd', 'lt', cmp_op('Lt'))
        reg(t, 'PartialOrd', 'le', cmp_op('Le'))
        reg(t, 'PartialOrd', 'gt', cmp_op('Gt'))
        reg(t, 'PartialOrd', 'ge', cmp_op('Ge'))
        reg(t, 'Clone', 'clone', lambda m, a, k: val(m, a[0]))

    for t in INTS:
        reg(t, 'Default', 'default', lambda m, a, k: 0)
    reg('bool', 'Default', 'default', lambda m, a, k: False)
    reg('String', 'Default', 'default', lambda m, a, k: Adt('String', 0, ('',)))
    reg('Vec', 'Default', 'default', lambda m, a, k: Adt('Vec', 0, ()))
    reg('Option', 'Default', 'default', lambda m, a, k: NONE)

    def ref_eq(m, a, k):
        # <&T as PartialEq>::eq(&&T, &&T): compare the pointees with T's own eq
        return key_eq(m, a[0], a[1])
    reg('*', 'PartialEq', 'eq', ref_eq)
    reg('*', 'PartialEq', 'ne', lambda m, a, k: not key_eq(m, a[0], a[1]))

    def sat(op):
        def h(m, a, k):
            t, (w, s) = int_info(k)
            x, y = val(m, a[0]), val(m, a[1])
            r = m.binop({'add': 'AddWithOverflow', 'sub': 'SubWithOverflow', 'mul': 'MulWithOverflow'}[op], x, y, t)
            res, ov = r.fields
            if not is_sym(ov):
                if not ov:
                    return res
            mx = (1 << (w - 1)) - 1 if s else (1 << w) - 1
            mn = -(1 << (w - 1)) if s else 0
            # direction of saturation
            zx, zy = to_bv(x, w), to_bv(y, w)
            if op == 'add':
                neg = (zy < 0) if s else z3.BoolVal(False)
            elif op == 'sub':
                neg = (zy > 0) if s else z3.BoolVal(True)
            else:
                neg = ((zx < 0) != (zy < 0)) if s else z3.BoolVal(False)
            satv = z3.If(neg, z3.BitVecVal(mn, w), z3.BitVecVal(mx, w))
            out = z3.If(ov if is_sym(ov) else z3.BoolVal(ov), satv, to_bv(res, w))
            out = z3.simplify(out)
            if z3.is_bv_value(out):
                return wrap(out.as_long(), w, s)
            return out
        return h
    for t in INTS:
        for opn in ('add', 'sub', 'mul'):
            regp('core::num::%s::saturating_%s' % (t, opn), sat(opn))
            regp('%s::saturating_%s' % (t, opn), sat(opn))
    for opn in ('add', 'sub', 'mul'):
        regp('core::num::saturating_%s' % opn, sat(opn))      # `core::num::<impl isize>::saturating_add`
        regp('num::saturating_%s' % opn, sat(opn))

    def checked(op):
        def h(m, a, k):
            t, (w, s) = int_info(k)
            x, y = val(m, a[0]), val(m, a[1])
            if op in ('div', 'rem'):
                zero = (y == 0) if not is_sym(y) else (y == z3.BitVecVal(0, w))
                if truth(m, zero, 'checked_div zero'):
                    return NONE
                if s:
                    mn = -(1 << (w - 1))
                    ovf = z3.And(to_bv(x, w) == z3.BitVecVal(mn, w), to_bv(y, w) == z3.BitVecVal(-1, w)) if (is_sym(x) or is_sym(y)) else (x == mn and y == -1)
                    if truth(m, ovf, 'checked_div overflow'):
                        return NONE
                return some(m.binop('Div' if op == 'div' else 'Rem', x, y, t))
            r = m.binop({'add': 'AddWithOverflow', 'sub': 'SubWithOverflow', 'mul': 'MulWithOverflow'}[op], x, y, t)
            res, ov = r.fields
            if truth(m, ov, 'checked overflow'):
                return NONE
            return some(res)
        return h
    for t in INTS:
        for opn in ('add', 'sub', 'mul', 'div', 'rem'):
            regp('core::num::%s::checked_%s' % (t, opn), checked(opn))
            regp('%s::checked_%s' % (t, opn), checked(opn))
    for opn in ('add', 'sub', 'mul', 'div', 'rem'):
        regp('core::num::checked_%s' % opn, checked(opn))
        regp('num::checked_%s' % opn, checked(opn))

    def int_abs(m, a, k):
        t, (w, s_) = int_info(k)
        x = val(m, a[0])
        if not is_sym(x):
            if s_ and x == -(1 << (w - 1)):
                raise Panic('attempt to negate with overflow')
            return abs(x)
        zx = to_bv(x, w)
        if truth(m, zx == z3.BitVecVal(-(1 << (w - 1)), w), 'abs overflow'):
            raise Panic('attempt to negate with overflow')
        return z3.simplify(z3.If(zx < 0, -zx, zx))

    def int_signum(m, a, k):
        t, (w, s_) = int_info(k)
        x = val(m, a[0])
        if not is_sym(x):
            return (x > 0) - (x < 0)
        zx = to_bv(x, w)
        return z3.If(zx > 0, z3.BitVecVal(1, w), z3.If(zx < 0, z3.BitVecVal(-1, w), z3.BitVecVal(0, w)))

    def int_sign_test(neg):
        def h(m, a, k):
            t, (w, s_) = int_info(k)
            x = val(m, a[0])
            if not is_sym(x):
                return (x < 0) if neg else (x > 0)
            zx = to_bv(x, w)
            return (zx < 0) if neg else (zx > 0)
        return h
    for nm, fn in (('abs', int_abs), ('signum', int_signum), ('is_negative', int_sign_test(True)), ('is_positive', int_sign_test(False))):
        for t in INTS:
            regp('core::num::%s::%s' % (t, nm), fn)
            regp('%s::%s' % (t, nm), fn)
        regp('core::num::%s' % nm, fn)
        regp('num::%s' % nm, fn)

    def minmax(which):
        def h(m, a, k):
            x, y = val(m, a[0]), val(m, a[1])
            t, (w, s) = int_info(k)
            if not is_sym(x) and not is_sym(y):
                return max(x, y) if which == 'max' else min(x, y)
            zx, zy = to_bv(x, w), to_bv(y, w)
            c = (zx >= zy) if s else z3.UGE(zx, zy)
            if which == 'max':
                # std::cmp::max returns the second argument when equal
                return z3.If((zx > zy) if s else z3.UGT(zx, zy), zx, zy)
            return z3.If((zx <= zy) if s else z3.ULE(zx, zy), zx, zy)
        return h
    regp('std::cmp::max', minmax('max'))
    regp('std::cmp::min', minmax('min'))
    regp('cmp::max', minmax('max'))
    regp('cmp::min', minmax('min'))
    regp('max', minmax('max'))
    regp('min', minmax('min'))

    # ---- Option / Result -----------------------------------------------------------------
    def opt_unwrap(m, a, k):
        o = val(m, a[0])
        if o.ty == 'Option':
            if o.var == 0:
                raise Panic('called `Option::unwrap()` on a `None` value')
            return o.fields[0]
        if o.var == 1:
            raise Panic('called `Result::unwrap()` on an `Err` value')
        return o.fields[0]
    reg('Option', None, 'unwrap', opt_unwrap)
    reg('Option', None, 'expect', opt_unwrap)
    reg('Result', None, 'unwrap', opt_unwrap)
    reg('Result', None, 'expect', opt_unwrap)
    reg('Option', None, 'is_some', lambda m, a, k: val(m, a[0]).var == 1)
    reg('Option', None, 'is_none', lambda m, a, k: val(m, a[0]).var == 0)
    reg('Result', None, 'is_ok', lambda m, a, k: val(m, a[0]).var == 0)
    reg('Result', None, 'is_err', lambda m, a, k: val(m, a[0]).var == 1)
    reg('Option', None, 'unwrap_or', lambda m, a, k: val(m, a[0]).fields[0] if val(m, a[0]).var == 1 else a[1])
    reg('Option', None, 'unwrap_or_else', lambda m, a, k: val(m, a[0]).fields[0] if val(m, a[0]).var == 1 else call_closure(m, a[1], []))
    reg('Option', None, 'ok_or', lambda m, a, k: ok(val(m, a[0]).fields[0]) if val(m, a[0]).var == 1 else err(a[1]))
    reg('Result', None, 'ok', lambda m, a, k: some(val(m, a[0]).fields[0]) if val(m, a[0]).var == 0 else NONE)

    def opt_copied(m, a, k):
        o = val(m, a[0])
        return some(val(m, o.fields[0])) if o.var == 1 else NONE
    reg('Option', None, 'copied', opt_copied)
    reg('Option', None, 'cloned', opt_copied)

    def opt_map(m, a, k):
        o = val(m, a[0])
        if o.ty == 'Option':
            return some(call_closure(m, a[1], [o.fields[0]])) if o.var == 1 else NONE
        return ok(call_closure(m, a[1], [o.fields[0]])) if o.var == 0 else o
    reg('Option', None, 'map', opt_map)
    reg('Result', None, 'map', opt_map)

    def opt_as_ref(m, a, k):
        r = innermost_ref(m, a[0])
        o = val(m, r)
        return some(Ref(r.cell, r.path + (0,))) if o.var == 1 else NONE
    reg('Option', None, 'as_ref', opt_as_ref)
    reg('Option', None, 'as_mut', opt_as_ref)

    def opt_iter(m, a, k):
        r = innermost_ref(m, a[0])
        o = val(m, r)
        return seq_iter([Ref(r.cell, r.path + (0,))] if o.var == 1 else [])
    reg('Option', None, 'iter', opt_iter)

    def opt_take(m, a, k):
        r = innermost_ref(m, a[0])
        o = val(m, r)
        store(r, NONE, m.ctx.resolve)
        return o
    reg('Option', None, 'take', opt_take)

    def opt_replace(m, a, k):
        r = innermost_ref(m, a[0])
        o = val(m, r)
        store(r, some(a[1]), m.ctx.resolve)
        return o
    reg('Option', None, 'replace', opt_replace)

    def opt_and_then(m, a, k):
        o = val(m, a[0])
        return call_closure(m, a[1], [o.fields[0]]) if o.var == 1 else NONE
    reg('Option', None, 'and_then', opt_and_then)

    def res_and_then(m, a, k):
        o = val(m, a[0])
        return call_closure(m, a[1], [o.fields[0]]) if o.var == 0 else o
    reg('Result', None, 'and_then', res_and_then)
    reg('Option', 'Clone', 'clone', lambda m, a, k: val(m, a[0]))
    reg('Result', 'Clone', 'clone', lambda m, a, k: val(m, a[0]))

    def try_branch(m, a, k):
        o = val(m, a[0])
        if o.ty == 'Result':
            return Adt('ControlFlow', 0, (o.fields[0],)) if o.var == 0 else Adt('ControlFlow', 1, (Adt('Result', 1, (o.fields[0],)),))
        return Adt('ControlFlow', 0, (o.fields[0],)) if o.var == 1 else Adt('ControlFlow', 1, (NONE,))
    reg('Result', 'Try', 'branch', try_branch)
    reg('Option', 'Try', 'branch', try_branch)
    reg('Result', 'FromResidual', 'from_residual', lambda m, a, k: val(m, a[0]))
    reg('Option', 'FromResidual', 'from_residual', lambda m, a, k: NONE)

    # ---- From / Into identity conversions -------------------------------------------------
    def into_generic(m, a, k):
        # <T as Into<X>>::into: crate `From<T> for X` impl if any, else identity
        v = val(m, a[0])
        target = None
        mm = re.match(r'Into<(.*)>', k.trait or '')
        if mm:
            target = mm.group(1)
        src = m.runtime_type(a[0])
        outer = m.ctx.resolve(a[0])
        if isinstance(outer, Adt) and outer.ty in ('Rc', 'Box') and target in ('Rc', 'Box'):
            return a[0]
        if target:
            for tr in ('From<%s>' % src, 'From<&%s>' % src):
                n = m.p.impls.get((target, tr, 'from'))
                if n:
                    return m.call_fn(n, [a[0]])
            n = m.p.impls.get((src, 'Into<%s>' % target, 'into'))
            if n:
                return m.call_fn(n, [a[0]])
        if target == src or target is None:
            return a[0]
        raise NotEncodable('Into<%s> for %s' % (target, src))
    reg('*', 'Into', 'into', into_generic)

    reg('String', 'From', 'from', lambda m, a, k: Adt('String', 0, (val(m, a[0]),)))
    reg('str', 'ToOwned', 'to_owned', lambda m, a, k: Adt('String', 0, (val(m, a[0]),)))
    reg('String', 'Clone', 'clone', lambda m, a, k: val(m, a[0]))
    reg('String', 'Deref', 'deref', lambda m, a, k: val(m, a[0]).fields[0])
    reg('String', None, 'as_str', lambda m, a, k: val(m, a[0]).fields[0])

    def str_eq(m, a, k):
        x, y = val(m, a[0]), val(m, a[1])
        if isinstance(x, Adt):
            x = x.fields[0]
        if isinstance(y, Adt):
            y = y.fields[0]
        return x == y
    for t in ('String', '&String', 'str', '&str'):
        reg(t, 'PartialEq', 'eq', str_eq)
        reg(t, 'PartialEq', 'ne', lambda m, a, k: not str_eq(m, a, k))

    # ---- panics / fmt (formatting is not executed) ------------------------------------------
    def do_panic(m, a, k):
        msg = a[0] if a and isinstance(a[0], str) else 'explicit panic'
        raise Panic(str(msg))
    for pth in ('core::panicking::panic', 'std::rt::begin_panic', 'std::rt::panic_fmt', 'core::panicking::panic_fmt',
                'core::panicking::panic_explicit', 'core::panicking::unreachable_display', 'core::option::unwrap_failed',
                'core::panicking::assert_failed', 'core::panicking::panic_display'):
        regp(pth, do_panic)
    regp('Arguments::new', lambda m, a, k: Opaque('fmt::Arguments'))
    regp('Arguments::from_str', lambda m, a, k: Opaque('fmt::Arguments'))
    regp('Arguments::new_const', lambda m, a, k: Opaque('fmt::Arguments'))
    regp('Arguments::new_v1', lambda m, a, k: Opaque('fmt::Arguments'))
    regp('core::fmt::rt::Argument::new_debug', lambda m, a, k: Opaque('fmt::Argument'))
    regp('core::fmt::rt::Argument::new_display', lambda m, a, k: Opaque('fmt::Argument'))
    regp('Argument::new_debug', lambda m, a, k: Opaque('fmt::Argument'))
    regp('Argument::new_display', lambda m, a, k: Opaque('fmt::Argument'))

    # ---- Any / TypeId ------------------------------------------------------------------
    def type_id_of(m, a, k):
        # TypeId::of::<T>()
        ga = m.generic_args(k)
        return Adt('TypeId', 0, (type_head(ga[-1]) if ga else '?',))
    regp('TypeId::of', type_id_of)

    def any_type_id(m, a, k):
        return Adt('TypeId', 0, (m.runtime_type(a[0]),))
    reg('*', 'Any', 'type_id', any_type_id)
    reg('TypeId', 'PartialEq', 'eq', lambda m, a, k: val(m, a[0]).fields[0] == val(m, a[1]).fields[0])
    reg('TypeId', 'PartialEq', 'ne', lambda m, a, k: val(m, a[0]).fields[0] != val(m, a[1]).fields[0])

    def goal_kind(m, x, depth=0):
        """'Goal' / 'DFSGoal' when the value contains a goal field (distinguishes the two
        instantiations of the operator structs that the crate tells apart by TypeId)."""
        x = m.ctx.resolve(x)
        if isinstance(x, Adt):
            if x.ty in ('Goal', 'DFSGoal'):
                return x.ty
            if depth < 5:
                for f in x.fields:
                    if isinstance(f, Ref):
                        f = m.deref_all(f)
                    if isinstance(f, (Adt,)):
                        g = goal_kind(m, f, depth + 1)
                        if g:
                            return g
        return None

    def any_downcast_ref(m, a, k):
        ga = m.generic_args(k)
        full = ga[-1] if ga else ''
        want = type_head(full)
        r = innermost_ref(m, a[0])
        x = m.ctx.resolve(load(r, m.ctx.resolve))
        while isinstance(x, Adt) and x.ty in ('Rc', 'Box'):
            if x.fields and isinstance(x.fields[0], Ref):
                r = innermost_ref(m, x.fields[0])
            else:
                r = Ref(r.cell, r.path + (0,))
            x = m.ctx.resolve(load(r, m.ctx.resolve))
        if isinstance(x, Adt) and (x.ty == want or m.runtime_type(x) == want or m.runtime_type(x) == full.strip()):
            # type arguments: only the goal kind can differ between instantiations in this crate
            mm = re.search(r'\b(DFSGoal|Goal)<', full[len(want):] if full.startswith(want) else full.split(want, 1)[-1])
            if mm:
                have = goal_kind(m, x) or m.generics.get('G')
                if have and have != mm.group(1):
                    return NONE
            return some(r)
        return NONE
    reg('dyn Any', None, 'downcast_ref', any_downcast_ref)
    reg('dyn Any', None, 'downcast_mut', any_downcast_ref)
    reg('dyn Any', None, 'is', lambda m, a, k: any_downcast_ref(m, a, k).var == 1)

    # ---- HashMap ---------------------------------------------------------------------------
    reg('HashMap', None, 'new', lambda m, a, k: Adt('HashMap', 0, ()))
    reg('HashSet', None, 'new', lambda m, a, k: Adt('HashSet', 0, ()))
    reg('HashMap', 'Default', 'default', lambda m, a, k: Adt('HashMap', 0, ()))
    reg('HashMap', 'Clone', 'clone', lambda m, a, k: val(m, a[0]))
    reg('HashSet', 'Clone', 'clone', lambda m, a, k: val(m, a[0]))

    def map_find(m, mp, key):
        for i, e in enumerate(mp.fields):
            if key_eq(m, Ref(Cell(e.fields[0])), key):
                return i
        return -1

    def hm_get(m, a, k):
        r = innermost_ref(m, a[0])
        mp = val(m, r)
        i = map_find(m, mp, a[1])
        if i < 0:
            return NONE
        return some(Ref(r.cell, r.path + (i, 1)))
    reg('HashMap', None, 'get', hm_get)
    reg('HashMap', None, 'get_mut', hm_get)
    reg('HashMap', None, 'contains_key', lambda m, a, k: hm_get(m, a, k).var == 1)

    def hm_index(m, a, k):
        o = hm_get(m, a, k)
        if o.var == 0:
            raise Panic('HashMap index: key not found')
        return o.fields[0]
    reg('HashMap', 'Index', 'index', hm_index)

    def hm_insert(m, a, k):
        r = innermost_ref(m, a[0])
        mp = val(m, r)
        i = map_find(m, mp, Ref(Cell(a[1])))
        if i >= 0:
            old = mp.fields[i].fields[1]
            store(Ref(r.cell, r.path + (i, 1)), a[2], m.ctx.resolve)
            return some(old)
        store(r, Adt('HashMap', 0, mp.fields + (Adt('(tuple)', 0, (a[1], a[2])),)), m.ctx.resolve)
        return NONE
    reg('HashMap', None, 'insert', hm_insert)

    def hm_remove(m, a, k):
        r = innermost_ref(m, a[0])
        mp = val(m, r)
        i = map_find(m, mp, a[1])
        if i < 0:
            return NONE
        old = mp.fields[i].fields[1]
        store(r, Adt('HashMap', 0, mp.fields[:i] + mp.fields[i + 1:]), m.ctx.resolve)
        return some(old)
    reg('HashMap', None, 'remove', hm_remove)
    reg('HashMap', None, 'is_empty', lambda m, a, k: len(val(m, a[0]).fields) == 0)
    reg('HashMap', None, 'len', lambda m, a, k: len(val(m, a[0]).fields))
    reg('HashSet', None, 'is_empty', lambda m, a, k: len(val(m, a[0]).fields) == 0)
    reg('HashSet', None, 'len', lambda m, a, k: len(val(m, a[0]).fields))

    def hm_iter(m, a, k):
        r = innermost_ref(m, a[0])
        mp = val(m, r)
        return seq_iter([Adt('(tuple)', 0, (Ref(r.cell, r.path + (i, 0)), Ref(r.cell, r.path + (i, 1))))
                         for i in iter_order(m, len(mp.fields))])
    reg('HashMap', None, 'iter', hm_iter)
    reg('HashMap', None, 'iter_mut', hm_iter)

    def hm_keys(m, a, k):
        r = innermost_ref(m, a[0])
        mp = val(m, r)
        return seq_iter([Ref(r.cell, r.path + (i, 0)) for i in iter_order(m, len(mp.fields))])
    reg('HashMap', None, 'keys', hm_keys)

    def hm_values(m, a, k):
        r = innermost_ref(m, a[0])
        mp = val(m, r)
        return seq_iter([Ref(r.cell, r.path + (i, 1)) for i in iter_order(m, len(mp.fields))])
    reg('HashMap', None, 'values', hm_values)
    reg('HashMap', 'IntoIterator', 'into_iter', lambda m, a, k: into_iter_value(m, a[0]))
    reg('HashSet', 'IntoIterator', 'into_iter', lambda m, a, k: into_iter_value(m, a[0]))

    def set_find(m, st, x):
        for i, e in enumerate(st.fields):
            if key_eq(m, Ref(Cell(e)), x):
                return i
        return -1

    def hs_insert(m, a, k):
        r = innermost_ref(m, a[0])
        st = val(m, r)
        if set_find(m, st, Ref(Cell(a[1]))) >= 0:
            return False
        store(r, Adt('HashSet', 0, st.fields + (a[1],)), m.ctx.resolve)
        return True
    reg('HashSet', None, 'insert', hs_insert)

    def hs_take(m, a, k):
        r = innermost_ref(m, a[0])
        st = val(m, r)
        i = set_find(m, st, a[1])
        if i < 0:
            return NONE
        old = st.fields[i]
        store(r, Adt('HashSet', 0, st.fields[:i] + st.fields[i + 1:]), m.ctx.resolve)
        return some(old)
    reg('HashSet', None, 'take', hs_take)
    reg('HashSet', None, 'remove', lambda m, a, k: hs_take(m, a, k).var == 1)
    reg('HashSet', None, 'contains', lambda m, a, k: set_find(m, val(m, a[0]), a[1]) >= 0)

    def hs_iter(m, a, k):
        r = innermost_ref(m, a[0])
        st = val(m, r)
        return seq_iter([Ref(r.cell, r.path + (i,)) for i in iter_order(m, len(st.fields))])
    reg('HashSet', None, 'iter', hs_iter)

    def hs_drain(m, a, k):
        r = innermost_ref(m, a[0])
        st = val(m, r)
        store(r, Adt('HashSet', 0, ()), m.ctx.resolve)
        return seq_iter([st.fields[i] for i in iter_order(m, len(st.fields))])
    reg('HashSet', None, 'drain', hs_drain)

    # ---- Vec / slices ------------------------------------------------------------------------
    reg('Vec', None, 'new', lambda m, a, k: Adt('Vec', 0, ()))
    reg('Vec', None, 'with_capacity', lambda m, a, k: Adt('Vec', 0, ()))
    reg('Vec', 'Clone', 'clone', lambda m, a, k: val(m, a[0]))
    reg('Vec', 'Default', 'default', lambda m, a, k: Adt('Vec', 0, ()))

    def vec_push(m, a, k):
        r = innermost_ref(m, a[0])
        v = val(m, r)
        store(r, Adt('Vec', 0, v.fields + (a[1],)), m.ctx.resolve)
        return UNIT
    reg('Vec', None, 'push', vec_push)

    def vec_pop(m, a, k):
        r = innermost_ref(m, a[0])
        v = val(m, r)
        if not v.fields:
            return NONE
        store(r, Adt('Vec', 0, v.fields[:-1]), m.ctx.resolve)
        return some(v.fields[-1])
    reg('Vec', None, 'pop', vec_pop)

    def vec_insert(m, a, k):
        r = innermost_ref(m, a[0])
        v = val(m, r)
        i = val(m, a[1])
        if is_sym(i):
            raise NotEncodable('Vec::insert at symbolic index')
        if i > len(v.fields):
            raise Panic('insertion index (is %d) should be <= len (is %d)' % (i, len(v.fields)))
        store(r, Adt('Vec', 0, v.fields[:i] + (a[2],) + v.fields[i:]), m.ctx.resolve)
        return UNIT
    reg('Vec', None, 'insert', vec_insert)

    def vec_split_off(m, a, k):
        r = innermost_ref(m, a[0])
        v = val(m, r)
        i = val(m, a[1])
        if is_sym(i):
            raise NotEncodable('Vec::split_off at symbolic index')
        if i > len(v.fields):
            raise Panic('`at` split index (is %d) should be <= len (is %d)' % (i, len(v.fields)))
        store(r, Adt('Vec', 0, v.fields[:i]), m.ctx.resolve)
        return Adt('Vec', 0, v.fields[i:])
    reg('Vec', None, 'split_off', vec_split_off)

    def vec_truncate(m, a, k):
        r = innermost_ref(m, a[0])
        v = val(m, r)
        i = val(m, a[1])
        store(r, Adt('Vec', 0, v.fields[:i]), m.ctx.resolve)
        return UNIT
    reg('Vec', None, 'truncate', vec_truncate)
    reg('Vec', None, 'clear', lambda m, a, k: (store(innermost_ref(m, a[0]), Adt('Vec', 0, ()), m.ctx.resolve), UNIT)[1])

    def vec_remove(m, a, k):
        r = innermost_ref(m, a[0])
        v = val(m, r)
        i = val(m, a[1])
        if is_sym(i):
            raise NotEncodable('Vec::remove at symbolic index')
        if i >= len(v.fields):
            raise Panic('removal index (is %d) should be < len (is %d)' % (i, len(v.fields)))
        store(r, Adt('Vec', 0, v.fields[:i] + v.fields[i + 1:]), m.ctx.resolve)
        return v.fields[i]
    reg('Vec', None, 'remove', vec_remove)
    for t in ('Vec', '[array]', 'slice', '[T]'):
        reg(t, None, 'len', lambda m, a, k: len(val(m, a[0]).fields))
        reg(t, None, 'is_empty', lambda m, a, k: len(val(m, a[0]).fields) == 0)
    reg('Vec', 'Deref', 'deref', lambda m, a, k: innermost_ref(m, a[0]))
    reg('Vec', 'DerefMut', 'deref_mut', lambda m, a, k: innermost_ref(m, a[0]))
    reg('Vec', None, 'as_slice', lambda m, a, k: innermost_ref(m, a[0]))
    reg('Vec', 'AsRef', 'as_ref', lambda m, a, k: innermost_ref(m, a[0]))

    def slice_iter(m, a, k):
        return seq_iter(refs_into(m, a[0]))
    for t in ('Vec', '[array]', 'slice'):
        reg(t, None, 'iter', slice_iter)
        reg(t, None, 'iter_mut', slice_iter)
    regp('core::slice::iter', slice_iter)
    regp('core::slice::<impl [T]>::iter', slice_iter)

    def slice_first(m, a, k):
        rs = refs_into(m, a[0])
        return some(rs[0]) if rs else NONE

    def slice_last(m, a, k):
        rs = refs_into(m, a[0])
        return some(rs[-1]) if rs else NONE
    for t in ('Vec', '[array]', 'slice'):
        reg(t, None, 'first', slice_first)
        reg(t, None, 'last', slice_last)

    def slice_to_vec(m, a, k):
        return Adt('Vec', 0, val(m, a[0]).fields)
    for t in ('Vec', '[array]', 'slice'):
        reg(t, None, 'to_vec', slice_to_vec)
        reg(t, None, 'into_vec', slice_to_vec)
        reg(t, 'ToOwned', 'to_owned', slice_to_vec)
    regp('slice::to_vec', slice_to_vec)
    regp('slice::into_vec', slice_to_vec)
    regp('std::slice::into_vec', slice_to_vec)

    def slice_contains(m, a, k):
        for e in refs_into(m, a[0]):
            if key_eq(m, e, a[1]):
                return True
        return False
    for t in ('Vec', '[array]', 'slice'):
        reg(t, None, 'contains', slice_contains)

    def vec_extend(m, a, k):
        r = innermost_ref(m, a[0])
        v = val(m, r)
        items = drain_all(m, into_iter_value(m, a[1]))
        store(r, Adt('Vec', 0, v.fields + tuple(items)), m.ctx.resolve)
        return UNIT
    reg('Vec', 'Extend', 'extend', vec_extend)
    reg('Vec', None, 'extend', vec_extend)
    reg('Vec', None, 'append', vec_extend)

    def vec_drain(m, a, k):
        r = innermost_ref(m, a[0])
        v = val(m, r)
        rng = val(m, a[1])
        if not ((isinstance(rng, Adt) and rng.ty == 'RangeFull') or (isinstance(rng, FnItem) and rng.name.endswith('RangeFull'))):
            raise NotEncodable('Vec::drain with a partial range')
        store(r, Adt('Vec', 0, ()), m.ctx.resolve)
        return seq_iter(list(v.fields))
    reg('Vec', None, 'drain', vec_drain)

    def vec_index(m, a, k):
        r = innermost_ref(m, a[0])
        v = val(m, r)
        i = val(m, a[1])
        if is_sym(i):
            raise NotEncodable('symbolic Vec index')
        if not (0 <= i < len(v.fields)):
            raise Panic('index out of bounds: the len is %d but the index is %d' % (len(v.fields), i))
        return Ref(r.cell, r.path + (i,))
    reg('Vec', 'Index', 'index', vec_index)
    reg('Vec', 'IndexMut', 'index_mut', vec_index)

    def int_lt(m, x, y):
        """strict < on isize values, forking when symbolic"""
        if not is_sym(x) and not is_sym(y):
            return x < y
        return truth(m, to_bv(x, 64) < to_bv(y, 64), 'sort/search compare')

    def vec_sort(m, a, k):
        r = innermost_ref(m, a[0])
        v = val(m, r)
        items = [val(m, x) for x in v.fields]
        # stable insertion sort; comparisons fork on symbolic values
        out = []
        for x in items:
            i = len(out)
            while i > 0 and int_lt(m, x, out[i - 1]):
                i -= 1
            out.insert(i, x)
        store(r, Adt(v.ty, 0, out), m.ctx.resolve)
        return UNIT
    for t in ('Vec', '[array]', 'slice'):
        reg(t, None, 'sort', vec_sort)
        reg(t, None, 'sort_unstable', vec_sort)

    def ord_key(m, v):
        """derive(Ord) order of a concrete value as a Python tuple (Option: None < Some; structs fieldwise)"""
        v = val(m, v)
        if isinstance(v, Adt):
            return (v.var,) + tuple(ord_key(m, f) for f in v.fields)
        if is_sym(v):
            raise NotEncodable('sort_by_key on a symbolic key')
        return (v,)

    def vec_sort_by_key(m, a, k):
        r = innermost_ref(m, a[0])
        v = val(m, r)
        keyed = []
        for i, x in enumerate(v.fields):
            keyed.append((ord_key(m, call_closure(m, a[1], [Ref(r.cell, r.path + (i,))])), i, x))
        keyed.sort(key=lambda t: (t[0], t[1]))       # stable
        store(r, Adt(v.ty, 0, [x for _, _, x in keyed]), m.ctx.resolve)
        return UNIT
    for t in ('Vec', '[array]', 'slice'):
        reg(t, None, 'sort_by_key', vec_sort_by_key)
        reg(t, None, 'sort_by_cached_key', vec_sort_by_key)

    def slice_chunks(exact):
        def h(m, a, k):
            v = val(m, a[0])
            n = val(m, a[1])
            if is_sym(n) or n <= 0:
                raise NotEncodable('chunks(symbolic or zero)')
            items = list(v.fields)
            out = []
            for i in range(0, len(items), n):
                part = items[i:i + n]
                if exact and len(part) < n:
                    break
                out.append(Ref(Cell(Adt('[array]', 0, part))))
            return seq_iter(out)
        return h
    for t in ('Vec', '[array]', 'slice'):
        reg(t, None, 'chunks', slice_chunks(False))
        reg(t, None, 'chunks_exact', slice_chunks(True))

    def vec_dedup(m, a, k):
        r = innermost_ref(m, a[0])
        v = val(m, r)
        out = []
        for x in v.fields:
            if out and structural_eq(m, out[-1], x):
                continue
            out.append(x)
        store(r, Adt(v.ty, 0, out), m.ctx.resolve)
        return UNIT
    reg('Vec', None, 'dedup', vec_dedup)

    def binary_search(m, a, k):
        v = val(m, a[0])
        x = val(m, a[1])
        lo, hi = 0, len(v.fields)
        # same probing sequence as core::slice::binary_search_by (size halving)
        items = [val(m, e) for e in v.fields]
        size = hi
        if size == 0:
            return err(0)
        base = 0
        while size > 1:
            half = size // 2
            mid = base + half
            # base = if cmp == Greater { base } else { mid }
            gt = int_lt(m, x, items[mid])
            base = base if gt else mid
            size -= half
        if structural_eq(m, items[base], x):
            return ok(base)
        less = int_lt(m, items[base], x)
        return err(base + (1 if less else 0))
    for t in ('Vec', '[array]', 'slice'):
        reg(t, None, 'binary_search', binary_search)

    # ---- ranges ------------------------------------------------------------------------------
    def ri_new(m, a, k):
        return Adt('RangeInclusive', 0, (a[0], a[1], False))
    reg('RangeInclusive', None, 'new', ri_new)
    regp('std::ops::RangeInclusive::new', ri_new)
    regp('RangeInclusive::new', ri_new)

    def ri_start(m, a, k):
        r = innermost_ref(m, a[0])
        return Ref(r.cell, r.path + (0,))

    def ri_end(m, a, k):
        r = innermost_ref(m, a[0])
        return Ref(r.cell, r.path + (1,))
    reg('RangeInclusive', None, 'start', ri_start)
    reg('RangeInclusive', None, 'end', ri_end)
    reg('RangeInclusive', 'Clone', 'clone', lambda m, a, k: val(m, a[0]))
    reg('RangeInclusive', 'IntoIterator', 'into_iter', lambda m, a, k: val(m, a[0]))

    def ri_is_empty(m, a, k):
        lo, hi, ex = val(m, a[0]).fields
        if ex is True:
            return True
        if is_sym(lo) or is_sym(hi):
            return z3.Not(to_bv(lo, 64) <= to_bv(hi, 64))
        return not (lo <= hi)
    reg('RangeInclusive', None, 'is_empty', ri_is_empty)

    def ri_contains(m, a, k):
        lo, hi, ex = val(m, a[0]).fields
        x = val(m, a[1])
        if ex is True:
            # exhausted ranges contain nothing past `end`; std: start <= x && (if exhausted x < end else x <= end)
            if is_sym(lo) or is_sym(hi) or is_sym(x):
                return z3.And(to_bv(lo, 64) <= to_bv(x, 64), to_bv(x, 64) < to_bv(hi, 64))
            return lo <= x < hi
        if is_sym(lo) or is_sym(hi) or is_sym(x):
            return z3.And(to_bv(lo, 64) <= to_bv(x, 64), to_bv(x, 64) <= to_bv(hi, 64))
        return lo <= x <= hi
    reg('RangeInclusive', None, 'contains', ri_contains)
    reg('RangeInclusive', 'RangeBounds', 'contains', ri_contains)

    # ---- iterator protocol -----------------------------------------------------------------
    def iter_next(back):
        def h(m, a, k):
            r, itv = it_of(m, a[0])
            nv, x = it_next(m, itv, back)
            if r is not None:
                store(r, nv, m.ctx.resolve)
            return some(x) if x is not None else NONE
        return h
    for t in ('Iter', 'RangeInclusive', 'Range', 'Box', '*'):
        reg(t, 'Iterator', 'next', iter_next(False))
        reg(t, 'DoubleEndedIterator', 'next_back', iter_next(True))

    def adaptor(kind, has_f=True, init=None):
        def h(m, a, k):
            return mk_iter(kind, into_iter_value(m, a[0]), a[1] if has_f and len(a) > 1 else None, init)
        return h
    for t in ('*',):
        reg(t, 'Iterator', 'map', adaptor('map'))
        reg(t, 'Iterator', 'filter', adaptor('filter'))
        reg(t, 'Iterator', 'skip_while', adaptor('skip_while', init=False))
        reg(t, 'Iterator', 'take_while', adaptor('take_while', init=False))
        reg(t, 'Iterator', 'copied', adaptor('copied', False))
        reg(t, 'Iterator', 'cloned', adaptor('cloned', False))
        reg(t, 'Iterator', 'rev', adaptor('rev', False))
        reg(t, 'Iterator', 'enumerate', adaptor('enumerate', False, 0))
        reg(t, 'Iterator', 'chain', lambda m, a, k: mk_iter('chain', (into_iter_value(m, a[0]), into_iter_value(m, a[1]))))
        reg(t, 'Iterator', 'zip', lambda m, a, k: mk_iter('zip', (into_iter_value(m, a[0]), into_iter_value(m, a[1]))))
        reg(t, 'Iterator', 'by_ref', lambda m, a, k: a[0])
        reg(t, 'Iterator', 'flat_map', adaptor('flat_map'))
        # scan(init, f): the running state lives in a cell handed to the closure as `&mut St`
        reg(t, 'Iterator', 'scan', lambda m, a, k: mk_iter('scan', into_iter_value(m, a[0]), a[2], Cell(a[1])))

        def it_take(m, a, k):
            n = val(m, a[1])
            if is_sym(n):
                raise NotEncodable('take(symbolic)')
            return mk_iter('take', into_iter_value(m, a[0]), state=n)

        def it_skip(m, a, k):
            n = val(m, a[1])
            if is_sym(n):
                raise NotEncodable('skip(symbolic)')
            return mk_iter('skip', into_iter_value(m, a[0]), state=n)
        reg(t, 'Iterator', 'peekable', lambda m, a, k: mk_iter('peekable', into_iter_value(m, a[0]), state=None))
        reg(t, 'Iterator', 'take', it_take)
        reg(t, 'Iterator', 'skip', it_skip)
        reg(t, 'IntoIterator', 'into_iter', lambda m, a, k: into_iter_value(m, a[0]))
    regp('std::iter::once', lambda m, a, k: mk_iter('once', state=a[0]))
    regp('std::iter::empty', lambda m, a, k: mk_iter('empty'))
    regp('iter::once', lambda m, a, k: mk_iter('once', state=a[0]))
    regp('iter::empty', lambda m, a, k: mk_iter('empty'))

    def consume(m, a0):
        """iterate `a0` (by value or &mut) to the end, yielding items; writes back progress"""
        r, itv = it_of(m, a0)
        cur = itv
        n = 0
        while True:
            cur, x = it_next(m, cur)
            if r is not None:
                store(r, cur, m.ctx.resolve)
            if x is None:
                return
            n += 1
            if n > 256:
                raise NotEncodable('iteration bound')
            yield x

    def it_any(m, a, k):
        for x in consume(m, a[0]):
            if truth(m, call_closure(m, a[1], [x]), 'any'):
                return True
        return False

    def it_all(m, a, k):
        for x in consume(m, a[0]):
            if not truth(m, call_closure(m, a[1], [x]), 'all'):
                return False
        return True

    def it_find(m, a, k):
        for x in consume(m, a[0]):
            if truth(m, call_closure(m, a[1], [Ref(Cell(x))]), 'find'):
                return some(x)
        return NONE

    def it_position(m, a, k):
        for i, x in enumerate(consume(m, a[0])):
            if truth(m, call_closure(m, a[1], [x]), 'position'):
                return some(i)
        return NONE

    def it_count(m, a, k):
        return len(list(consume(m, a[0])))

    def it_nth(m, a, k):
        n = val(m, a[1])
        if is_sym(n):
            raise NotEncodable('nth(symbolic)')
        for i, x in enumerate(consume(m, a[0])):
            if i == n:
                return some(x)
        return NONE

    def it_last(m, a, k):
        last = None
        for x in consume(m, a[0]):
            last = x
        return some(last) if last is not None else NONE

    def it_for_each(m, a, k):
        for x in consume(m, a[0]):
            call_closure(m, a[1], [x])
        return UNIT

    def it_fold(m, a, k):
        acc = a[1]
        for x in consume(m, a[0]):
            acc = call_closure(m, a[2], [acc, x])
        return acc

    def it_collect(m, a, k):
        items = list(consume(m, a[0]))
        ga = m.generic_args(k)
        target = ga[-1] if ga else ''
        th = type_head(target) if target else 'Vec'
        if th in ('Vec', ''):
            return Adt('Vec', 0, items)
        if th == 'HashSet':
            out = Adt('HashSet', 0, ())
            cell = Cell(out)
            for x in items:
                hs_insert(m, [Ref(cell), x], k)
            return cell.v
        if th == 'HashMap':
            cell = Cell(Adt('HashMap', 0, ()))
            for x in items:
                hm_insert(m, [Ref(cell), x.fields[0], x.fields[1]], k)
            return cell.v
        n = m.p.impls.get((th, 'FromIterator<%s>' % th, 'from_iter')) or next(
            (nm for (t2, tr, mm), nm in m.p.impls.items() if t2 == th and mm == 'from_iter'), None)
        if n:
            return m.call_fn(n, [seq_iter(items)])
        raise NotEncodable('collect into ' + target)

    def it_partition(m, a, k):
        yes, no = [], []
        for x in consume(m, a[0]):
            (yes if truth(m, call_closure(m, a[1], [Ref(Cell(x))]), 'partition') else no).append(x)
        ga = m.generic_args(k)
        th = type_head(ga[0]) if ga else 'Vec'
        def build(items):
            if th == 'Vec':
                return Adt('Vec', 0, items)
            n = next((nm for (t2, tr, mm), nm in m.p.impls.items() if t2 == th and mm == 'from_iter'), None)
            if n is None:
                raise NotEncodable('partition into ' + th)
            return m.call_fn(n, [seq_iter(items)])
        return Adt('(tuple)', 0, (build(yes), build(no)))

    def it_minmax(which):
        def h(m, a, k):
            items = list(consume(m, a[0]))
            if not items:
                return NONE
            byref = isinstance(m.ctx.resolve(items[0]), Ref)
            best = val(m, items[0])
            for x in items[1:]:
                xv = val(m, x)
                if not is_sym(best) and not is_sym(xv):
                    # std: min returns the first minimum, max the last maximum
                    if which == 'min':
                        best = xv if xv < best else best
                    else:
                        best = xv if xv >= best else best
                else:
                    zb, zx = to_bv(best, 64), to_bv(xv, 64)
                    best = z3.If(zx < zb, zx, zb) if which == 'min' else z3.If(zx >= zb, zx, zb)
            return some(Ref(Cell(best)) if byref else best)
        return h

    def it_sum(m, a, k):
        acc = 0
        for x in consume(m, a[0]):
            acc = m.binop('Add', acc, val(m, x), 'isize')
        return acc

    def it_eq(m, a, k):
        xs = list(consume(m, a[0]))
        ys = drain_all(m, into_iter_value(m, a[1]))
        if len(xs) != len(ys):
            return False
        for x, y in zip(xs, ys):
            if not key_eq(m, x, y):
                return False
        return True
    for t in ('*',):
        reg(t, 'Iterator', 'any', it_any)
        reg(t, 'Iterator', 'all', it_all)
        reg(t, 'Iterator', 'find', it_find)
        reg(t, 'Iterator', 'position', it_position)
        reg(t, 'Iterator', 'count', it_count)
        reg(t, 'Iterator', 'nth', it_nth)
        reg(t, 'Iterator', 'last', it_last)
        reg(t, 'Iterator', 'for_each', it_for_each)
        reg(t, 'Iterator', 'fold', it_fold)
        reg(t, 'Iterator', 'collect', it_collect)
        reg(t, 'Iterator', 'eq', it_eq)
        reg(t, 'Iterator', 'partition', it_partition)
        reg(t, 'Iterator', 'min', it_minmax('min'))
        reg(t, 'Iterator', 'max', it_minmax('max'))
        reg(t, 'Iterator', 'sum', it_sum)

    def peek(m, a, k):
        r, itv = it_of(m, a[0])
        st = itv.fields[0]
        if st.kind != 'peekable':
            raise NotEncodable('peek on a non-peekable iterator')
        if st.state is None:
            ns, x = it_next(m, st.src)
            nv = mk_iter('peekable', ns, state=(x,))
            if r is None:
                raise NotEncodable('peek needs a place')
            store(r, nv, m.ctx.resolve)
            st = nv.fields[0]
        x = st.state[0]
        return some(Ref(Cell(x))) if x is not None else NONE
    reg('Peekable', None, 'peek', peek)
    reg('Iter', None, 'peek', peek)

    # ---- RefCell (single-threaded interior mutability: the borrow flag is not modelled) ------------
    reg('RefCell', None, 'new', lambda m, a, k: Adt('RefCell', 0, (a[0],)))

    def refcell_borrow(m, a, k):
        r = innermost_ref(m, a[0])
        return Ref(r.cell, r.path + (0,))
    reg('RefCell', None, 'borrow', refcell_borrow)
    reg('RefCell', None, 'borrow_mut', refcell_borrow)
    for t in ('RefMut', 'Ref', 'std::cell::RefMut', 'std::cell::Ref'):
        reg(t, 'Deref', 'deref', lambda m, a, k: innermost_ref(m, a[0]))
        reg(t, 'DerefMut', 'deref_mut', lambda m, a, k: innermost_ref(m, a[0]))

    def opt_get_or_insert_with(m, a, k):
        r = innermost_ref(m, a[0])
        o = val(m, r)
        if o.var == 0:
            store(r, some(call_closure(m, a[1], [])), m.ctx.resolve)
        return Ref(r.cell, r.path + (0,))
    reg('Option', None, 'get_or_insert_with', opt_get_or_insert_with)

    # ---- OnceCell -------------------------------------------------------------------------------
    reg('OnceCell', None, 'new', lambda m, a, k: Adt('OnceCell', 0, (NONE,)))

    def once_get_or_init(m, a, k):
        r = innermost_ref(m, a[0])
        c = val(m, r)
        if c.fields[0].var == 0:
            v = call_closure(m, a[1], [])
            store(r, Adt('OnceCell', 0, (some(v),)), m.ctx.resolve)
        return Ref(r.cell, r.path + (0, 0))
    reg('OnceCell', None, 'get_or_init', once_get_or_init)

    def once_get(m, a, k):
        r = innermost_ref(m, a[0])
        c = val(m, r)
        return some(Ref(r.cell, r.path + (0, 0))) if c.fields[0].var == 1 else NONE
    reg('OnceCell', None, 'get', once_get)

    # ---- Hash into a transcript hasher (C21): the hasher value is Adt('Transcript', 0, (items..)) and every
    # primitive `write` appends one item; equal transcripts <=> equal hash under every Hasher
    def transcript_append(m, state_arg, item):
        r = innermost_ref(m, state_arg)
        t = val(m, r)
        if not (isinstance(t, Adt) and t.ty == 'Transcript'):
            raise NotEncodable('hashing into something that is not the transcript hasher: %r' % (t,))
        store(r, Adt('Transcript', 0, t.fields + (item,)), m.ctx.resolve)
        return UNIT

    def hash_prim(kind):
        def h(m, a, k):
            return transcript_append(m, a[1], Adt('(tuple)', 0, (kind, val(m, a[0]))))
        return h
    for t in INTS:
        reg(t, 'Hash', 'hash', hash_prim(t))
    reg('bool', 'Hash', 'hash', hash_prim('bool'))
    reg('()', 'Hash', 'hash', lambda m, a, k: UNIT)
    reg('', 'Hash', 'hash', lambda m, a, k: UNIT)

    def hash_string(m, a, k):
        sv = val(m, a[0])
        if isinstance(sv, Adt):
            sv = sv.fields[0]
        return transcript_append(m, a[1], Adt('(tuple)', 0, ('str', sv)))
    reg('String', 'Hash', 'hash', hash_string)
    reg('str', 'Hash', 'hash', hash_string)

    def hash_tuple(m, a, k):
        tv = val(m, a[0])
        for f in tv.fields:
            m.call('<LTerm<U, E> as Hash>::hash::<H>', [Ref(Cell(f)), a[1]])
        return UNIT
    reg('(LTerm, LTerm)', 'Hash', 'hash', hash_tuple)
    reg('(tuple)', 'Hash', 'hash', hash_tuple)

    # ---- closures through Fn* traits ---------------------------------------------------------
    def fn_call(m, a, k):
        tup = val(m, a[1])
        return call_closure(m, a[0], list(tup.fields) if isinstance(tup, Adt) and tup.ty == '(tuple)' else ([] if tup is UNIT or (isinstance(tup, Adt) and tup.ty == '()') else [tup]))
    for t in ('*',):
        reg(t, 'Fn', 'call', fn_call)
        reg(t, 'FnMut', 'call_mut', fn_call)
        reg(t, 'FnOnce', 'call_once', fn_call)

    # ---- misc ----------------------------------------------------------------------------------
    def borrow_generic(m, a, k):
        # <T as Borrow<X>>::borrow(&T): T = X gives the argument back; T = &X (or &&X) peels one level
        r = m.ctx.resolve(a[0])
        if isinstance(r, Ref):
            v = m.ctx.resolve(load(r, m.ctx.resolve))
            if isinstance(v, Ref):
                return v
        return a[0]
    reg('*', 'Borrow', 'borrow', borrow_generic)
    reg('*', 'BorrowMut', 'borrow_mut', lambda m, a, k: a[0])
    regp('PhantomData', lambda m, a, k: UNIT)
    reg('AtomicUsize', None, 'fetch_add', lambda m, a, k: atomic_fetch_add(m, a))
    reg('Atomic', None, 'fetch_add', lambda m, a, k: atomic_fetch_add(m, a))
    regp('std::ptr::eq', lambda m, a, k: ptr_eq(m, a))
    regp('ptr::eq', lambda m, a, k: ptr_eq(m, a))


def ptr_eq(m, a):
    x, y = m.ctx.resolve(a[0]), m.ctx.resolve(a[1])
    if isinstance(x, Ref) and isinstance(y, Ref):
        return x.cell is y.cell and x.path == y.path
    raise NotEncodable('ptr::eq on non-pointers')


def atomic_fetch_add(m, a):
    n = m.statics.get('UNIQUE_ID_COUNTER', 1000)
    m.statics['UNIQUE_ID_COUNTER'] = n + 1
    return n
