"""MIR symbolic executor (Engine M).

`Program` loads one or more `-Zunpretty=mir` dumps together with the source trees they were
produced from (needed to resolve `<impl at file:line>` names and enum variant orders).
`Machine` executes MIR functions on the value domain of values.py along *one* path; symbolic
branches ask the `Ctx` which way to go.  `explore()` enumerates all feasible paths by
re-execution with growing decision prefixes (no state copying: every path is a fresh run).
"""
import os
import re
import sys
import time

import z3

import mir
from values import (Adt, Cell, Ref, Lazy, FnItem, Opaque, UNIT, Panic, NotEncodable, PathAbort,
                    is_sym, load, store, show)

INT_TYPES = {'isize': (64, True), 'usize': (64, False), 'i8': (8, True), 'u8': (8, False),
             'i16': (16, True), 'u16': (16, False), 'i32': (32, True), 'u32': (32, False),
             'i64': (64, True), 'u64': (64, False), 'i128': (128, True), 'u128': (128, False),
             'char': (32, False), 'bool': (1, False)}

STD_ENUMS = {
    'Option': ['None', 'Some'],
    'Result': ['Ok', 'Err'],
    'ControlFlow': ['Continue', 'Break'],
    'Ordering': ['Less', 'Equal', 'Greater'],
}


def strip_generics(s):
    """Remove every `<...>` generic argument list (and a preceding `::`) from a path."""
    out, i, n = [], 0, len(s)
    while i < n:
        c = s[i]
        if c == '<':
            j = mir.match_paren(s, i)
            if out[-2:] == [':', ':']:
                out = out[:-2]
            i = j + 1
            continue
        out.append(c)
        i += 1
    return ''.join(out)


def type_head(t):
    """`lterm::LTerm<U, E>` -> `LTerm`; `&'a mut Foo<T>` -> `Foo`; `dyn Tr<U>` -> `dyn Tr`."""
    t = t.strip()
    t = re.sub(r"^&('\w+ )?(mut )?", '', t)
    if t.startswith('(') and t.endswith(')') and mir.match_paren(t, 0) == len(t) - 1 and ',' not in strip_generics(mir._strip_nested(t[1:-1])):
        t = t[1:-1].strip()
    if t.startswith('(') and t.endswith(')') and mir.match_paren(t, 0) == len(t) - 1 and len(t) > 2:
        # tuple type: normalise every component (`(proto_vulcan::lterm::LTerm, LTerm<U, E>)` -> `(LTerm, LTerm)`)
        return '(' + ', '.join(type_head(p) for p in mir.split_top(t[1:-1]) if p.strip()) + ')'
    dyn = ''
    if t.startswith('dyn '):
        dyn = 'dyn '
        t = t[4:]
        t = re.sub(r"^for<[^>]*> ", '', t)
    t = re.sub(r" \+ '\w+$", '', t)
    t = strip_generics(t)
    t = t.split('::')[-1]
    return dyn + t.strip()


class CalleeKey(object):
    __slots__ = ('self_ty', 'trait', 'method', 'path', 'raw', 'self_full', 'trait_full', 'gen', 'type_args')


_CALLEE_CACHE = {}


def parse_callee(text):
    k = _CALLEE_CACHE.get(text)
    if k is None:
        k = _parse_callee(text)
        _CALLEE_CACHE[text] = k
    return k


def _parse_callee(text):
    """Split a callee string from a MIR call into (self type, trait, method) or a free path."""
    k = CalleeKey()
    k.raw = text
    k.self_ty = k.trait = k.method = k.path = k.self_full = k.trait_full = None
    k.gen = None
    k.type_args = None
    t = text.strip()
    if t.startswith('<'):
        j = mir.match_paren(t, 0)
        inner = t[1:j]
        rest = t[j + 1:]
        a = mir._top_level_as(inner)
        # ` as ` inside generics must not count: _top_level_as only tracks ([{ so check '<' too
        a = _top_as_angle(inner)
        if a >= 0:
            k.self_full = inner[:a].strip()
            k.trait_full = inner[a + 4:].strip()
        else:
            k.self_full = inner.strip()
        k.self_ty = type_head(k.self_full) if not k.self_full.startswith('<') else k.self_full
        if k.trait_full:
            k.trait = trait_key(k.trait_full)
        segs = [x for x in _split_path(rest) if x]
        k.gen = [s for s in segs if s.startswith('<')]
        k.type_args = _type_args_of(k.self_full)
        segs = [s for s in segs if not s.startswith('<')]
        k.method = '::'.join(segs)
        return k
    segs = _split_path(t)
    gens = [s for s in segs if s.startswith('<')]
    names = [s for s in segs if not s.startswith('<')]
    k.path = '::'.join(names)
    # `Type::<targs>::method::<margs>`: a group right after the second-to-last name holds the type's arguments
    k.type_args = None
    if len(names) >= 2:
        idx = [i for i, sg in enumerate(segs) if not sg.startswith('<')]
        ti = idx[-2]
        if ti + 1 < len(segs) and segs[ti + 1].startswith('<'):
            k.type_args = [a for a in mir.split_top(segs[ti + 1][1:-1]) if a and not a.startswith("'")]
        mi = idx[-1]
        gens = [segs[mi + 1]] if mi + 1 < len(segs) and segs[mi + 1].startswith('<') else []
    k.gen = gens
    if len(names) >= 2:
        k.self_ty = names[-2]
        k.method = names[-1]
    else:
        k.method = names[-1]
    return k


def _type_args_of(t):
    """`InferredGoal<U, E, Goal<U, E>>` -> ['U', 'E', 'Goal<U, E>']"""
    if not t:
        return None
    t = t.strip()
    t = re.sub(r"^&('\w+ )?(mut )?", '', t)
    i = t.find('<')
    if i < 0 or not t.endswith('>'):
        return None
    return [a for a in mir.split_top(t[i + 1:-1]) if a and not a.startswith("'")]


def _top_as_angle(s):
    depth = 0
    i, n = 0, len(s)
    while i < n:
        c = s[i]
        if c in '([{<':
            depth += 1
        elif c in ')]}':
            depth -= 1
        elif c == '>' and not (i > 0 and s[i - 1] in '-='):
            depth -= 1
        elif depth == 0 and s.startswith(' as ', i):
            return i
        i += 1
    return -1


def _split_path(t):
    """Split `a::b::<X, Y>::c` into ['a','b','<X, Y>','c'] (top level only)."""
    segs, cur, i, n = [], [], 0, len(t)
    while i < n:
        c = t[i]
        if c == '<':
            j = mir.match_paren(t, i)
            if cur:
                segs.append(''.join(cur))
                cur = []
            segs.append(t[i:j + 1])
            i = j + 1
            continue
        if t.startswith('::', i):
            if cur:
                segs.append(''.join(cur))
                cur = []
            i += 2
            continue
        cur.append(c)
        i += 1
    if cur:
        segs.append(''.join(cur))
    return [s.strip() for s in segs]


def trait_key(t):
    """`AsRef<LTermInner<U, E>>` -> `AsRef<LTermInner>`; `Clone` -> `Clone`;
    `From<std::ops::RangeInclusive<isize>>` -> `From<RangeInclusive>`."""
    t = t.strip()
    m = re.match(r'^([\w:]+)<(.*)>$', t, re.S)
    if not m:
        return t.split('::')[-1]
    name = m.group(1).split('::')[-1]
    args = mir.split_top(m.group(2))
    args = [a for a in args if not a.startswith("'")]
    if name in ('AsRef', 'From', 'Into', 'PartialEq', 'Borrow', 'Upcast', 'Downcast', 'GoalCast',
                'FromIterator', 'Extend', 'Index', 'IndexMut', 'AsMut', 'PartialOrd'):
        # keep the distinguishing argument(s); generic parameters U/E are dropped
        keep = [type_head_full(a) for a in args if a not in ('U', 'E')]
        if keep:
            return '%s<%s>' % (name, ', '.join(keep[-1:]))
    return name


def type_head_full(t):
    t = t.strip()
    pre = ''
    m = re.match(r"^&('\w+ )?(mut )?", t)
    if m and m.group(0):
        pre = '&'
        t = t[m.end():]
    if t.startswith('[') and t.endswith(']'):
        return pre + '[' + type_head_full(t[1:-1].split(';')[0]) + ']'
    if t.startswith('(') and t.endswith(')'):
        parts = mir.split_top(t[1:-1])
        return pre + '(' + ', '.join(type_head_full(p) for p in parts) + ')'
    return pre + type_head(t)


class Program(object):
    """MIR functions + source-derived tables (impl index, enum variants)."""

    def __init__(self):
        self.fns = {}
        self.impls = {}        # (type_head, trait_key|None, method) -> fn name
        self.free = {}         # last path segments -> fn name
        self.enums = dict(STD_ENUMS)
        self.struct_fields = {}
        self.src_roots = []
        self.defaults = {}     # (trait, method) -> fn name (trait default bodies)
        self.closures = {}     # closure span text -> fn name
        self.impl_variants = {}  # same key -> [(impl header text, fn name)] when several impls differ only in type arguments

    def load(self, mir_path, src_root, crate=''):
        text = open(mir_path).read()
        fns = mir.parse_dump(text)
        self.src_roots.append(src_root)
        self._scan_sources(src_root)
        if not hasattr(self, 'fn_root'):
            self.fn_root = {}
        for name, f in fns.items():
            self.fns[name] = f
            self.fn_root[name] = src_root
            self._index(name, src_root)

    # ---- source scanning -----------------------------------------------------------------
    def _scan_sources(self, root):
        for dp, dn, fn in os.walk(root):
            if 'target' in dp.split(os.sep):
                continue
            for f in fn:
                if f.endswith('.rs'):
                    self._scan_file(os.path.join(dp, f))

    def _scan_file(self, path):
        txt = open(path).read()
        for m in re.finditer(r'\benum\s+(\w+)\s*(?:<[^{]*?>)?\s*(?:where[^{]*)?\{', txt):
            name = m.group(1)
            body = _brace_body(txt, m.end() - 1)
            variants = []
            for part in mir.split_top(_strip_comments(body)):
                part = re.sub(r'#\[[^\]]*\]', '', part).strip()
                mm = re.match(r'(\w+)', part)
                if mm:
                    variants.append(mm.group(1))
            if variants and name not in self.enums:
                self.enums[name] = variants
        for m in re.finditer(r'\bstruct\s+(\w+)\s*(?:<[^{;(]*?>)?\s*(?:where[^{;]*)?\{', txt):
            name = m.group(1)
            body = _brace_body(txt, m.end() - 1)
            fields = []
            for part in mir.split_top(_strip_comments(body)):
                part = re.sub(r'#\[[^\]]*\]', '', part).strip()
                mm = re.match(r'(?:pub(?:\([^)]*\))?\s+)?(\w+)\s*:', part)
                if mm:
                    fields.append(mm.group(1))
            self.struct_fields.setdefault(name, fields)

    def _index(self, name, root):
        m = re.search(r'<impl at ([^:>]+):(\d+):(\d+): (\d+):(\d+)>::(.*)$', name)
        if m:
            path = os.path.join(root, m.group(1))
            if not os.path.exists(path):
                path = os.path.join(os.path.dirname(root), m.group(1))
            method = m.group(6)
            hdr = _span_text(path, int(m.group(2)), int(m.group(3)), int(m.group(4)), int(m.group(5)))
            if re.match(r'\s*proto_vulcan\w*!', hdr):
                # impls generated by a query macro inside a template function: keyed by that function
                owner = name[:m.start()].rstrip(':').split('::')[-1]
                trait = {'from_vec': 'QueryResult', 'clone': 'Clone'}.get(method.split('::')[0])
                if trait:
                    self.impls.setdefault((owner, trait, method), name)
                return
            ty, trait = _parse_impl_header(hdr, path, int(m.group(2)), method)
            if '::' in method and '{' not in method:
                # function nested inside a method body (`anyvars::collect`)
                self.free.setdefault(method, name)
                self.free.setdefault('%s::%s' % (ty, method), name)
            self.impls.setdefault((ty, trait, method), name)
            self.impl_variants.setdefault((ty, trait, method), []).append((' '.join(hdr.split()), name))
            return
        parts = name.split('::')
        # trait default methods look like `Trait::method`
        if len(parts) == 2 and re.match(r'^[A-Z]', parts[0]) and '{' not in name:
            self.defaults.setdefault((parts[0], parts[1]), name)
        self.free.setdefault(name, name)

    def impl_generics(self, name):
        """(generic parameter names of the impl block, argument patterns of its self type)"""
        if not hasattr(self, '_ig'):
            self._ig = {}
        if name in self._ig:
            return self._ig[name]
        res = ([], [], '')
        m = re.search(r'<impl at ([^:>]+):(\d+):(\d+): (\d+):(\d+)>', name)
        if m:
            for root in ([self.fn_root[name]] if name in getattr(self, 'fn_root', {}) else self.src_roots):
                pth = os.path.join(root, m.group(1))
                if os.path.exists(pth):
                    hdr = ' '.join(_span_text(pth, int(m.group(2)), int(m.group(3)), int(m.group(4)), int(m.group(5))).split())
                    if hdr.startswith('impl<'):
                        j = mir.match_paren(hdr, 4)
                        params = []
                        for part in mir.split_top(hdr[5:j]):
                            part = part.strip()
                            if part and not part.startswith("'") and not part.startswith('const '):
                                params.append(re.match(r'\w+', part).group(0))
                        rest = re.split(r'\bwhere\b', hdr[j + 1:])[0].strip()
                        selfty = rest.split(' for ')[-1].strip()
                        res = (params, _type_args_of(selfty) or [], selfty)
                    break
        self._ig[name] = res
        return res

    def method_generics(self, name):
        """Names of the generic type parameters declared on the function itself (not on its impl),
        read from the source text; [] if none / unknown."""
        if not hasattr(self, '_mg'):
            self._mg = {}
        if name in self._mg:
            return self._mg[name]
        out = []
        base = name.split('::{closure')[0]
        meth = base.split('::')[-1]
        m = re.search(r'<impl at ([^:>]+):(\d+):(\d+): (\d+):(\d+)>', base)
        texts = []
        if m:
            for root in ([self.fn_root[name]] if name in getattr(self, 'fn_root', {}) else self.src_roots):
                pth = os.path.join(root, m.group(1))
                if os.path.exists(pth):
                    ls = _lines(pth)
                    texts.append('\n'.join(ls[int(m.group(2)) - 1:]))
                    break
        else:
            for root in ([self.fn_root[name]] if name in getattr(self, 'fn_root', {}) else self.src_roots):
                for dp, dn, fn in os.walk(root):
                    if 'target' in dp.split(os.sep):
                        continue
                    for f in fn:
                        if f.endswith('.rs'):
                            texts.append('\n'.join(_lines(os.path.join(dp, f))))
        for txt in texts:
            mm = re.search(r'\bfn\s+%s\s*<' % re.escape(meth), txt)
            if mm:
                j = mir.match_paren(txt, mm.end() - 1)
                for part in mir.split_top(txt[mm.end():j]):
                    part = part.strip()
                    if not part or part.startswith("'") or part.startswith('const '):
                        continue
                    out.append(re.match(r'\w+', part).group(0))
                break
        self._mg[name] = out
        return out

    def enum_index(self, ty, variant):
        vs = self.enums.get(ty)
        if vs is None:
            raise NotEncodable('unknown enum %s' % ty)
        return vs.index(variant)


def _strip_comments(s):
    s = re.sub(r'//[^\n]*', '', s)
    return re.sub(r'/\*.*?\*/', '', s, flags=re.S)


def _brace_body(txt, i):
    j = mir.match_paren(txt, i)
    return txt[i + 1:j]


_FILE_CACHE = {}


def _lines(path):
    if path not in _FILE_CACHE:
        _FILE_CACHE[path] = open(path).read().split('\n')
    return _FILE_CACHE[path]


def _span_text(path, l1, c1, l2, c2):
    ls = _lines(path)
    if l1 == l2:
        return ls[l1 - 1][c1 - 1:c2 - 1]
    out = [ls[l1 - 1][c1 - 1:]] + ls[l1:l2 - 1] + [ls[l2 - 1][:c2 - 1]]
    return '\n'.join(out)


DERIVE_TRAIT = {'clone': 'Clone', 'fmt': 'Debug', 'eq': 'PartialEq', 'ne': 'PartialEq', 'hash': 'Hash',
                'default': 'Default', 'assert_fields_are_eq': 'Eq', 'assert_receiver_is_total_eq': 'Eq',
                'partial_cmp': 'PartialOrd', 'cmp': 'Ord'}


def _parse_impl_header(hdr, path, line, method):
    h = ' '.join(hdr.split())
    if not h.startswith('impl'):
        # derive: type is the next struct/enum item below
        ls = _lines(path)
        ty = '?'
        for k in range(line - 1, min(len(ls), line + 40)):
            m = re.match(r'\s*(?:pub(?:\([^)]*\))?\s+)?(?:struct|enum)\s+(\w+)', ls[k])
            if m:
                ty = m.group(1)
                break
        base = method.split('::')[0]
        trait = DERIVE_TRAIT.get(base)
        if h in ('Clone', 'Debug', 'PartialEq', 'Eq', 'Hash', 'Default', 'Copy', 'PartialOrd', 'Ord'):
            trait = h if h != 'Eq' else 'Eq'
        return ty, trait
    h = h[4:].strip()
    if h.startswith('<'):
        j = mir.match_paren(h, 0)
        h = h[j + 1:].strip()
    h = re.split(r'\bwhere\b', h)[0].strip()
    # `Trait<..> for Type<..>` | `Type<..>`
    depth, k = 0, -1
    for i, c in enumerate(h):
        if c in '<([':
            depth += 1
        elif c in '>)]' and not (c == '>' and h[i - 1] in '-='):
            depth -= 1
        elif depth == 0 and h.startswith(' for ', i):
            k = i
            break
    if k >= 0:
        trait = trait_key(h[:k])
        ty = type_head(h[k + 5:])
    else:
        trait = None
        ty = type_head(h)
    return ty, trait


# ==============================================================================================
# Execution context: decisions, path condition, fresh symbols
# ==============================================================================================

class Ctx(object):
    def __init__(self, prefix=(), timeout_ms=20000, validate=0):
        self.validate = validate      # the first `validate` decisions of the prefix are unchecked guesses
        self.prefix = list(prefix)
        self.pos = 0
        self.decisions = []
        self.pc = []
        self.solver = z3.Solver()
        self.solver.set('timeout', timeout_ms)
        self.counter = 0
        self.spawned = []       # new prefixes discovered on this path
        self.lazy = {}          # lazy id -> materialised Adt
        self.effects = []       # recorded effects (models append here)
        self.notes = {}
        self.solver_calls = 0
        self.rc_tag = 0
        self.deferred = []      # (condition, panic message): checked once at the end of the path

    def fresh(self, base):
        self.counter += 1
        return '%s!%d' % (base, self.counter)

    def fresh_bv(self, base, width=64):
        return z3.BitVec(self.fresh(base), width)

    def fresh_bool(self, base):
        return z3.Bool(self.fresh(base))

    def new_tag(self):
        self.rc_tag += 1
        return self.rc_tag

    def assume(self, cond):
        if cond is True:
            return
        if cond is False:
            raise PathAbort('assumption false')
        self.pc.append(cond)
        self.solver.add(cond)

    def query(self, *extra, long_ms=120000, fresh=False):
        """Satisfiability of path condition + extra. Returns (z3 result, model or None).
        The incremental solver is tried first with a short time-out; if it gives up, a fresh
        (non-incremental, fully preprocessed) solver decides the query."""
        extra = [e for e in extra if e is not True]
        if any(e is False for e in extra):
            return z3.unsat, None
        self.solver_calls += 1
        if not fresh:
            self.solver.set('timeout', 1500)
            r = self.solver.check(*extra)
            if r == z3.sat:
                return r, self.solver.model()
            if r == z3.unsat:
                return r, None
        s2 = z3.Solver()
        s2.set('timeout', long_ms)
        s2.add(*self.pc)
        s2.add(*extra)
        r = s2.check()
        return r, (s2.model() if r == z3.sat else None)

    def feasible(self, cond):
        if cond is True:
            return True
        if cond is False:
            return False
        r, _ = self.query(cond)
        if r == z3.unknown:
            raise NotEncodable('solver unknown on feasibility check')
        return r == z3.sat

    def choose(self, alts, what=''):
        """alts: list of conditions (True / z3 Bool). Returns the index of the alternative this
        path follows; other feasible alternatives are scheduled."""
        if self.pos < len(self.prefix):
            i = self.prefix[self.pos]
            if self.pos < self.validate and (i >= len(alts) or not self.feasible(alts[i])):
                raise PathAbort('initial prefix not applicable')
            self.pos += 1
            self.decisions.append(i)
            self.assume(alts[i])
            return i
        feas = [i for i, c in enumerate(alts) if self.feasible(c)]
        if not feas:
            raise PathAbort('no feasible alternative at ' + what)
        base = list(self.decisions)
        for i in feas[1:]:
            self.spawned.append(base + [i])
        i = feas[0]
        self.pos += 1
        self.decisions.append(i)
        self.assume(alts[i])
        return i

    def branch(self, cond, what=''):
        """Boolean branch on a possibly symbolic condition."""
        if cond is True or cond is False:
            return cond
        cond = z3.simplify(cond)
        if z3.is_true(cond):
            return True
        if z3.is_false(cond):
            return False
        return self.choose([cond, z3.Not(cond)], what) == 0

    def resolve(self, v):
        while isinstance(v, Lazy):
            got = self.lazy.get(v.id)
            if got is None:
                got = self.materialise(v)
            v = got
        return v

    def materialise(self, lz):
        alts = lz.spec.alternatives(self, lz)   # list of (cond, builder)
        i = self.choose([c for c, _ in alts], 'lazy ' + lz.ty)
        val = alts[i][1](self, lz)
        self.lazy[lz.id] = val
        return val


# ==============================================================================================
# Machine
# ==============================================================================================

class Frame(object):
    __slots__ = ('fn', 'cells', 'generics')


def bvw(ty):
    t = ty.strip()
    if t in INT_TYPES:
        return INT_TYPES[t]
    return None


def to_bv(v, width):
    if is_sym(v):
        if z3.is_bool(v):
            return z3.If(v, z3.BitVecVal(1, width), z3.BitVecVal(0, width))
        if v.size() == width:
            return v
        if v.size() > width:
            return z3.Extract(width - 1, 0, v)
        return z3.ZeroExt(width - v.size(), v)
    if isinstance(v, bool):
        v = int(v)
    return z3.BitVecVal(v, width)


def wrap(v, width, signed):
    v &= (1 << width) - 1
    if signed and v >> (width - 1):
        v -= 1 << width
    return v


class Machine(object):
    def __init__(self, prog, ctx, generics=None, models=None, max_steps=2000000, max_depth=400):
        self.p = prog
        self.ctx = ctx
        self.generics = dict(generics or {})
        self.models = models
        self.steps = 0
        self.max_steps = max_steps
        self.depth = 0
        self.max_depth = max_depth
        self.trace = []
        self.frames = []
        self.called = set()
        self.statics = {}

    # ---- places -------------------------------------------------------------------------
    def place(self, fr, p):
        k = p[0]
        if k == 'local':
            c = fr.cells[p[1]]
            if isinstance(c.v, Ref) and c.v.meta == 'boxalias':
                return Ref(c.v.cell, c.v.path)          # deref temporary: stands for the Box it was copied from
            return Ref(c)
        if k == 'field':
            r = self.place(fr, p[1])
            ty = p[3]
            if r.meta == 'boxptr':
                return r                      # `.0: NonNull<T>` of a Box's Unique: still the box pointer
            if ty.startswith('std::ptr::Unique<'):
                base = load(r, self.ctx.resolve)
                if isinstance(base, Adt) and base.ty == 'Box' and not (
                        base.fields and isinstance(base.fields[0], Adt) and base.fields[0].ty == 'Unique'):
                    # raw pointer stored inside a Box (value semantics: the Box *is* its content);
                    # reading this place yields a pointer to the content
                    return Ref(r.cell, r.path, 'boxptr')
            return Ref(r.cell, r.path + (p[2],))
        if k == 'deref':
            r = self.place(fr, p[1])
            v = self.ctx.resolve(load(r, self.ctx.resolve))
            if isinstance(v, Ref):
                return v
            if isinstance(v, Adt) and v.ty in ('NonNull', 'Unique', 'Rc') and v.fields and isinstance(v.fields[0], Ref):
                return v.fields[0]
            if isinstance(v, Adt) and v.ty in ('Box', 'Rc', 'NonNull', 'Unique'):
                return Ref(r.cell, r.path + (0,))
            raise NotEncodable('deref of %r' % (v,))
        if k == 'downcast':
            return self.place(fr, p[1])
        if k == 'index':
            r = self.place(fr, p[1])
            i = load(Ref(fr.cells[p[2]]))
            if is_sym(i):
                raise NotEncodable('symbolic index')
            self._bounds(r, i)
            return Ref(r.cell, r.path + (i,))
        if k == 'cindex':
            r = self.place(fr, p[1])
            i = p[2]
            if p[4]:
                n = len(load(r, self.ctx.resolve).fields)
                i = n - i
            return Ref(r.cell, r.path + (i,))
        raise NotEncodable('place kind ' + k)

    def _bounds(self, r, i):
        v = load(r, self.ctx.resolve)
        if isinstance(v, Adt) and not (0 <= i < len(v.fields)):
            raise Panic('index out of bounds: the len is %d but the index is %d' % (len(v.fields), i))

    def read(self, fr, p):
        r = self.place(fr, p)
        if r.meta == 'boxptr':
            return Ref(r.cell, r.path + (0,))
        v = load(r, self.ctx.resolve)
        if v is None:
            raise NotEncodable('read of uninitialised %r in %s' % (p, fr.fn.name))
        return v

    def operand(self, fr, o):
        k = o[0]
        if k == 'copy' or k == 'move':
            return self.read(fr, o[1])
        if k == 'const':
            return self.const(o)
        raise NotEncodable('operand ' + k)

    def const(self, o):
        kind = o[1]
        if kind == 'int' or kind == 'bool':
            return o[2]
        if kind == 'unit':
            return UNIT
        if kind == 'str':
            return o[2]
        if kind == 'char':
            return ord(o[2]) if len(o[2]) == 1 else NotEncodableValue(o)
        if kind == 'intlimit':
            w, s = INT_TYPES[o[3]]
            if o[2] == 'MAX':
                return (1 << (w - 1)) - 1 if s else (1 << w) - 1
            return -(1 << (w - 1)) if s else 0
        if kind == 'item':
            txt = o[2]
            # unit-like enum variants / structs
            segs = [s for s in _split_path(txt) if not s.startswith('<')]
            if len(segs) >= 2 and segs[-2] in self.p.enums and segs[-1] in self.p.enums[segs[-2]]:
                return Adt(segs[-2], self.p.enums[segs[-2]].index(segs[-1]), ())
            if 'promoted[' in txt:
                return self.promoted(txt)
            if txt.startswith('ZeroSized: '):
                ty = txt[len('ZeroSized: '):].strip()
                if ty.startswith('{closure@'):
                    return Adt(ty, 0, ())
                if self.models is not None and hasattr(self.models, 'zero_sized'):
                    z = self.models.zero_sized(ty)
                    if z is not None:
                        return z
                return Adt(type_head(ty), 0, ())
            if txt.endswith(')') and not txt.startswith('<'):
                j = mir._open_paren_of_last(txt)
                head = [s for s in _split_path(txt[:j]) if not s.startswith('<')]
                if len(head) >= 2 and head[-2] in self.p.enums and head[-1] in self.p.enums[head[-2]]:
                    args = [self.const(mir.parse_const(a)) for a in mir.split_top(txt[j + 1:-1]) if a != '']
                    return Adt(head[-2], self.p.enums[head[-2]].index(head[-1]), args)
            return FnItem(txt)
        if kind == 'bytes':
            return Opaque('bytes')
        raise NotEncodable('const %r' % (o,))

    def promoted(self, txt):
        if txt in self.statics:
            return self.statics[txt]
        m = re.match(r'(.*)::(promoted\[\d+\])$', txt)
        base, idx = m.group(1), m.group(2)
        name = None
        try:
            name = self.resolve_fn(parse_callee(base), [])
        except Exception:
            name = None
        if name is None:
            segs = [s for s in _split_path(base) if not s.startswith('<')]
            for k in range(len(segs)):
                cand = '::'.join(segs[k:])
                hits = [n for n in self.p.fns if n == cand or n.endswith('::' + cand)]
                if len(hits) == 1:
                    name = hits[0]
                    break
        if name is None or (name + '::' + idx) not in self.p.fns:
            raise NotEncodable('promoted constant ' + txt)
        v = self.call_fn(name + '::' + idx, [])
        self.statics[txt] = v
        return v

    # ---- rvalues ------------------------------------------------------------------------
    def optype(self, fr, o):
        if o[0] == 'const':
            return o[3]
        p = o[1]
        while True:
            if p[0] == 'local':
                return fr.fn.locals.get(p[1], '')
            if p[0] == 'field':
                return p[3]
            if p[0] == 'deref':
                t = self.optype(fr, ('copy', p[1]))
                return re.sub(r"^&('\w+ )?(mut )?", '', t.strip())
            return ''

    def rvalue(self, fr, rv, dest_ty=''):
        k = rv[0]
        if k == 'use':
            return self.operand(fr, rv[1])
        if k == 'ref' or k == 'rawptr':
            r = self.place(fr, rv[2])
            return r
        if k == 'discr':
            v = self.ctx.resolve(self.read(fr, rv[1]))
            if isinstance(v, Adt):
                return v.var
            raise NotEncodable('discriminant of %r' % (v,))
        if k == 'agg':
            return self.aggregate(fr, rv)
        if k == 'binop':
            a = self.operand(fr, rv[2])
            b = self.operand(fr, rv[3])
            ty = self.optype(fr, rv[2]) or self.optype(fr, rv[3])
            return self.binop(rv[1], a, b, ty)
        if k == 'unop':
            a = self.operand(fr, rv[2])
            ty = self.optype(fr, rv[2])
            return self.unop(rv[1], a, ty)
        if k == 'cast':
            return self.cast(fr, rv)
        if k == 'len':
            v = self.read(fr, rv[1])
            if isinstance(v, Adt):
                return len(v.fields)
            raise NotEncodable('Len of %r' % (v,))
        if k == 'repeat':
            v = self.operand(fr, rv[1])
            n = rv[2]
            m = re.match(r'(?:const )?(\d+)', n)
            if not m:
                raise NotEncodable('repeat count ' + n)
            return Adt('[array]', 0, [v] * int(m.group(1)))
        raise NotEncodable('rvalue %s: %s' % (k, rv[1] if len(rv) > 1 else ''))

    def aggregate(self, fr, rv):
        _, kind, name, _, ops, names = rv
        vals = [self.operand(fr, o) for o in ops]
        if kind == 'tuple':
            return Adt('(tuple)', 0, vals) if vals else UNIT
        if kind == 'array':
            return Adt('[array]', 0, vals)
        if kind == 'closure':
            return Adt(name, 0, vals)
        segs = name
        if len(segs) >= 2 and segs[-2] in self.p.enums and segs[-1] in self.p.enums[segs[-2]]:
            return Adt(segs[-2], self.p.enums[segs[-2]].index(segs[-1]), vals)
        ty = segs[-1]
        if names is not None and ty in self.p.struct_fields:
            order = self.p.struct_fields[ty]
            if set(order) == set(names) and order != names:
                d = dict(zip(names, vals))
                vals = [d[n] for n in order]
        return Adt(ty, 0, vals)

    def binop(self, op, a, b, ty):
        info = bvw(ty) or (64, True)
        w, signed = info
        if op == 'Offset':
            raise NotEncodable('pointer offset')
        if isinstance(a, Ref) or isinstance(b, Ref):
            if op in ('Eq', 'Ne'):
                same = isinstance(a, Ref) and isinstance(b, Ref) and a.cell is b.cell and a.path == b.path
                return same if op == 'Eq' else not same
            raise NotEncodable('pointer arithmetic')
        if isinstance(a, Adt) and a.ty == 'Ordering':
            a = a.var - 1
        if isinstance(b, Adt) and b.ty == 'Ordering':
            b = b.var - 1
        if ty.strip() == 'bool' and not is_sym(a) and not is_sym(b):
            a, b = bool(a), bool(b)
            return {'Eq': a == b, 'Ne': a != b, 'BitAnd': a and b, 'BitOr': a or b, 'BitXor': a != b,
                    'Lt': a < b, 'Le': a <= b, 'Gt': a > b, 'Ge': a >= b}[op]
        if ty.strip() == 'bool':
            za = a if is_sym(a) else z3.BoolVal(bool(a))
            zb = b if is_sym(b) else z3.BoolVal(bool(b))
            if op == 'Eq':
                return za == zb
            if op == 'Ne':
                return za != zb
            if op == 'BitAnd':
                return z3.And(za, zb)
            if op == 'BitOr':
                return z3.Or(za, zb)
            if op == 'BitXor':
                return z3.Xor(za, zb)
            raise NotEncodable('bool op ' + op)
        if not is_sym(a) and not is_sym(b):
            return self.binop_concrete(op, a, b, w, signed)
        za, zb = to_bv(a, w), to_bv(b, w)
        if op in ('Add', 'AddUnchecked'):
            return za + zb
        if op in ('Sub', 'SubUnchecked'):
            return za - zb
        if op in ('Mul', 'MulUnchecked'):
            return za * zb
        if op == 'Div':
            return (za / zb) if signed else z3.UDiv(za, zb)
        if op == 'Rem':
            return z3.SRem(za, zb) if signed else z3.URem(za, zb)
        if op == 'BitAnd':
            return za & zb
        if op == 'BitOr':
            return za | zb
        if op == 'BitXor':
            return za ^ zb
        if op == 'Eq':
            return za == zb
        if op == 'Ne':
            return za != zb
        if op == 'Lt':
            return (za < zb) if signed else z3.ULT(za, zb)
        if op == 'Le':
            return (za <= zb) if signed else z3.ULE(za, zb)
        if op == 'Gt':
            return (za > zb) if signed else z3.UGT(za, zb)
        if op == 'Ge':
            return (za >= zb) if signed else z3.UGE(za, zb)
        if op in ('AddWithOverflow', 'SubWithOverflow', 'MulWithOverflow'):
            if op[0] == 'A':
                res = za + zb
                if signed:
                    ov = z3.Or(z3.Not(z3.BVAddNoOverflow(za, zb, True)), z3.Not(z3.BVAddNoUnderflow(za, zb)))
                else:
                    ov = z3.Not(z3.BVAddNoOverflow(za, zb, False))
            elif op[0] == 'S':
                res = za - zb
                if signed:
                    ov = z3.Or(z3.Not(z3.BVSubNoOverflow(za, zb)), z3.Not(z3.BVSubNoUnderflow(za, zb, True)))
                else:
                    ov = z3.Not(z3.BVSubNoUnderflow(za, zb, False))
            else:
                res = za * zb
                if signed:
                    ov = z3.Or(z3.Not(z3.BVMulNoOverflow(za, zb, True)), z3.Not(z3.BVMulNoUnderflow(za, zb)))
                else:
                    ov = z3.Not(z3.BVMulNoOverflow(za, zb, False))
            return Adt('(tuple)', 0, (res, ov))
        if op == 'Cmp':
            lt = (za < zb) if signed else z3.ULT(za, zb)
            i = self.ctx.choose([lt, za == zb, z3.And(z3.Not(lt), za != zb)], 'Cmp')
            return Adt('Ordering', i, ())
        if op in ('Shl', 'ShlUnchecked'):
            return za << zb
        if op in ('Shr', 'ShrUnchecked'):
            return (za >> zb) if signed else z3.LShR(za, zb)
        raise NotEncodable('binop ' + op)

    def binop_concrete(self, op, a, b, w, signed):
        if isinstance(a, bool):
            a = int(a)
        if isinstance(b, bool):
            b = int(b)
        if op in ('Add', 'AddUnchecked'):
            return wrap(a + b, w, signed)
        if op in ('Sub', 'SubUnchecked'):
            return wrap(a - b, w, signed)
        if op in ('Mul', 'MulUnchecked'):
            return wrap(a * b, w, signed)
        if op == 'Div':
            q = abs(a) // abs(b)
            return wrap(q if (a < 0) == (b < 0) else -q, w, signed)
        if op == 'Rem':
            q = abs(a) // abs(b)
            q = q if (a < 0) == (b < 0) else -q
            return wrap(a - q * b, w, signed)
        if op == 'BitAnd':
            return wrap(a & b, w, signed)
        if op == 'BitOr':
            return wrap(a | b, w, signed)
        if op == 'BitXor':
            return wrap(a ^ b, w, signed)
        if op == 'Eq':
            return a == b
        if op == 'Ne':
            return a != b
        if op == 'Lt':
            return a < b
        if op == 'Le':
            return a <= b
        if op == 'Gt':
            return a > b
        if op == 'Ge':
            return a >= b
        if op in ('AddWithOverflow', 'SubWithOverflow', 'MulWithOverflow'):
            r = a + b if op[0] == 'A' else (a - b if op[0] == 'S' else a * b)
            wr = wrap(r, w, signed)
            return Adt('(tuple)', 0, (wr, wr != r))
        if op == 'Cmp':
            return Adt('Ordering', 0 if a < b else (1 if a == b else 2), ())
        if op in ('Shl', 'ShlUnchecked'):
            return wrap(a << (b % w), w, signed)
        if op in ('Shr', 'ShrUnchecked'):
            return wrap(a >> (b % w), w, signed)
        raise NotEncodable('binop ' + op)

    def unop(self, op, a, ty):
        if op == 'Not':
            if isinstance(a, bool):
                return not a
            if is_sym(a) and z3.is_bool(a):
                return z3.Not(a)
            w, signed = bvw(ty) or (64, True)
            if is_sym(a):
                return ~a
            return wrap(~a, w, signed)
        if op == 'Neg':
            w, signed = bvw(ty) or (64, True)
            if is_sym(a):
                return -a
            return wrap(-a, w, signed)
        if op == 'PtrMetadata':
            if isinstance(a, Ref):
                v = load(a, self.ctx.resolve)
                if isinstance(v, Adt):
                    return len(v.fields)
            raise NotEncodable('PtrMetadata')
        raise NotEncodable('unop ' + op)

    def cast(self, fr, rv):
        v = self.operand(fr, rv[1])
        ty, kind = rv[2].strip(), rv[3]
        if kind.startswith('PointerCoercion') or kind in ('PtrToPtr', 'Transmute', 'FnPtrToPtr'):
            return v
        if kind in ('IntToInt',):
            info = bvw(ty)
            src = bvw(self.optype(fr, rv[1]))
            if info is None:
                raise NotEncodable('cast to ' + ty)
            w, signed = info
            if isinstance(v, Adt) and v.ty == 'Ordering':
                v = v.var - 1
            if isinstance(v, Adt) and not v.fields:       # fieldless enum -> discriminant
                v = v.var
            if is_sym(v):
                if z3.is_bool(v):
                    return to_bv(v, w)
                sw = v.size()
                if sw == w:
                    return v
                if sw > w:
                    return z3.Extract(w - 1, 0, v)
                return z3.SignExt(w - sw, v) if (src and src[1]) else z3.ZeroExt(w - sw, v)
            return wrap(int(v), w, signed)
        raise NotEncodable('cast kind ' + kind)

    # ---- calls --------------------------------------------------------------------------
    def resolve_param(self, ty):
        """A generic parameter name -> head of the type it stands for (frame bindings first, then the
        run's global instantiation U/E/G); other names are returned unchanged."""
        fg = self.frames[-1].generics if self.frames else None
        if fg and ty in fg:
            t2 = type_head(fg[ty])
            if not re.fullmatch(r'[A-Z]\w?', t2):
                return t2
            ty = t2
        return self.generics.get(ty, ty)

    def subst_generics(self, text):
        g = self.frames[-1].generics if self.frames else None
        if not g:
            return text
        return re.sub(r'\b(%s)\b' % '|'.join(map(re.escape, g)), lambda mm: g[mm.group(1)], text)

    def generic_args(self, key):
        """Explicit generic arguments of a call (last `::<..>` group), resolved through the
        calling frame's own generic parameters."""
        if not key.gen:
            return []
        return [a for a in mir.split_top(self.subst_generics(key.gen[-1][1:-1])) if a and not a.startswith("'")]

    def call_fn(self, name, args, gmap=None):
        """Execute the MIR body of function `name` with argument values `args`."""
        f = self.p.fns.get(name)
        if f is None:
            raise NotEncodable('no MIR body for ' + name)
        mir.parse_body(f)
        self.called.add(name)
        if self.depth >= self.max_depth:
            raise NotEncodable('call depth bound reached in ' + name)
        fr = Frame()
        fr.fn = f
        fr.generics = gmap
        if gmap is None and self.frames and '{closure' in name:
            fr.generics = self.frames[-1].generics     # closures see their parent's parameters
        fr.cells = {}
        for n, lty in f.locals.items():
            # zero-sized closures are never assigned in MIR: give closure-typed locals their (capture-less) value
            fr.cells[n] = Cell(Adt(lty, 0, ()) if lty.startswith('{closure@') and lty.endswith('}') else None)
        fr.cells[0] = Cell(None)
        if len(args) != f.nargs:
            # closures called through Fn* traits receive (closure, (args...))
            raise NotEncodable('arity mismatch calling %s: %d vs %d' % (name, len(args), f.nargs))
        for i, a in enumerate(args):
            fr.cells[i + 1].v = a
        self.depth += 1
        self.frames.append(fr)
        try:
            return self.run(fr)
        finally:
            self.frames.pop()
            self.depth -= 1

    def run(self, fr):
        f = fr.fn
        bb = 'bb0'
        ctx = self.ctx
        while True:
            for st in f.blocks[bb]:
                self.steps += 1
                if self.steps > self.max_steps:
                    raise NotEncodable('step bound reached')
                k = st[0]
                if k == 'assign':
                    dest = self.place(fr, st[1])
                    dty = fr.fn.locals.get(st[1][1], '') if st[1][0] == 'local' else ''
                    if st[2][0] == 'use_alias':
                        src = self.place(fr, st[2][1][1])
                        sv = ctx.resolve(load(src, ctx.resolve))
                        if st[1][0] == 'local' and dty.startswith('std::boxed::Box<') and isinstance(sv, Adt) and sv.ty == 'Box' and src.meta is None:
                            # Box is modelled by value; copying the POINTER must not copy the boxed value
                            fr.cells[st[1][1]].v = Ref(src.cell, src.path, 'boxalias')
                            continue
                        v = self.rvalue(fr, ('use', st[2][1]), dty)
                    else:
                        v = self.rvalue(fr, st[2], dty)
                    store(dest, v, ctx.resolve)
                elif k == 'nop':
                    pass
                elif k == 'goto':
                    bb = st[1]
                    break
                elif k == 'switch':
                    v = self.operand(fr, st[1])
                    bb = self.switch(v, st[2], st[3], f.name)
                    break
                elif k == 'call':
                    args = [self.operand(fr, a) for a in st[3]]
                    res = self.call(st[2], args, fr)
                    if st[4] is None:
                        raise NotEncodable('diverging call returned: ' + st[2])
                    store(self.place(fr, st[1]), res, ctx.resolve)
                    bb = st[4]
                    break
                elif k == 'return':
                    return fr.cells[0].v if fr.cells[0].v is not None else UNIT
                elif k == 'drop':
                    bb = st[2]
                    break
                elif k == 'assert':
                    c = self.operand(fr, st[1])
                    exp = st[2]
                    ok = c if exp else (z3.Not(c) if is_sym(c) else (not c))
                    if not ctx.branch(ok, 'assert'):
                        raise Panic(st[3])
                    bb = st[4]
                    break
                elif k == 'setdiscr':
                    r = self.place(fr, st[1])
                    v = load(r, ctx.resolve)
                    store(r, Adt(v.ty, st[2], v.fields, v.tag), ctx.resolve)
                elif k == 'unreachable':
                    raise NotEncodable('reached `unreachable` in ' + f.name)
                elif k == 'resume':
                    raise NotEncodable('resume')
                else:
                    raise NotEncodable('statement %r in %s' % (st, f.name))
            else:
                raise NotEncodable('block without terminator %s in %s' % (bb, f.name))

    def switch(self, v, targets, other, where):
        ctx = self.ctx
        if isinstance(v, bool):
            v = int(v)
        if isinstance(v, Adt) and v.ty == 'Ordering':
            v = v.var - 1
        if not is_sym(v):
            for val, b in targets:
                if val == v or (v < 0 and val == v % (1 << 64)) or (v < 0 and val == v % 256):
                    return b
            if other is None:
                raise NotEncodable('switch without target')
            return other
        if z3.is_bool(v):
            conds = []
            for val, b in targets:
                conds.append(v if val != 0 else z3.Not(v))
            rest = z3.And(*[z3.Not(c) for c in conds]) if conds else True
        else:
            conds = [v == z3.BitVecVal(val, v.size()) for val, b in targets]
            rest = z3.And(*[z3.Not(c) for c in conds]) if conds else True
        alts = conds + ([rest] if other is not None else [])
        i = ctx.choose(alts, 'switch in ' + where)
        if i < len(targets):
            return targets[i][1]
        return other

    def call(self, callee, args, fr=None):
        key = parse_callee(callee)
        if self.models is not None:
            handled, res = self.models.dispatch(self, key, args, fr)
            if handled:
                return res
        name = self.resolve_fn(key, args)
        if name is None:
            raise NotEncodable('no model and no MIR body for callee `%s`' % callee)
        gmap = {}
        if key.gen:
            names = self.p.method_generics(name)
            ga = self.generic_args(key)
            if names and len(names) == len(ga):
                gmap.update(zip(names, ga))
        params, pattern, selfty = self.p.impl_generics(name)
        if key.type_args:
            targs = [self.subst_generics(a) for a in key.type_args]
            if params and len(pattern) == len(targs):
                for pat, arg in zip(pattern, targs):
                    if pat in params:
                        gmap[pat] = arg
        if selfty in params and args:
            # blanket impl (`impl<T: ..> Trait for T`): T is the receiver's own type
            rt = self.runtime_type(args[0])
            if rt:
                gmap[selfty] = rt
        return self.call_fn(name, args, gmap or None)

    def deref_all(self, v):
        v = self.ctx.resolve(v)
        while isinstance(v, Ref):
            v = self.ctx.resolve(load(v, self.ctx.resolve))
        while isinstance(v, Adt) and v.ty in ('Rc', 'Box') and len(v.fields) == 1:
            v = self.ctx.resolve(v.fields[0])
            while isinstance(v, Ref):
                v = self.ctx.resolve(load(v, self.ctx.resolve))
        return v

    def goal_kind(self, x, depth=0):
        """'Goal' / 'DFSGoal' if the (dereferenced) value holds a goal of that kind in its own fields."""
        x = self.deref_all(x) if depth == 0 else self.ctx.resolve(x)
        if isinstance(x, Adt):
            if x.ty in ('Goal', 'DFSGoal'):
                return x.ty
            if depth < 5:
                for f in x.fields:
                    if isinstance(f, Ref):
                        f = self.deref_all(f)
                    if isinstance(f, Adt):
                        g = self.goal_kind(f, depth + 1)
                        if g:
                            return g
        return None

    def runtime_type(self, v):
        v = self.deref_all(v)
        if isinstance(v, Adt):
            if v.ty == '(tuple)':
                return '(%s)' % ', '.join(str(self.runtime_type(f)) for f in v.fields)
            return v.ty
        if isinstance(v, bool):
            return 'bool'
        if isinstance(v, int):
            return 'int'
        if isinstance(v, str):
            return 'str'
        if is_sym(v):
            return 'bool' if z3.is_bool(v) else 'int'
        return None

    def resolve_fn(self, key, args):
        p = self.p
        if key.path is not None:
            # free function or inherent method `Type::method`
            if key.path in p.free:
                return p.free[key.path]
            if key.self_ty is not None:
                n = p.impls.get((key.self_ty, None, key.method))
                if n:
                    return n
                # any trait impl providing the method for that type
                for (ty, tr, m), n in p.impls.items():
                    if ty == key.self_ty and m == key.method:
                        return n
                d = p.defaults.get((key.self_ty, key.method))
                if d:
                    return d
            # suffix match on free functions
            suffix = '::' + key.path.split('::')[-1]
            cands = [n for n in p.free if n == key.path.split('::')[-1] or n.endswith(suffix)]
            if len(cands) == 1:
                return cands[0]
            last = key.path.split('::')[-1]
            if last in cands:
                return last
            for n in cands:
                if n.endswith('::'.join(key.path.split('::')[-2:])):
                    return n
            return None
        ty = key.self_ty
        ty = self.resolve_param(ty)
        cands = [ty]
        if ty in ('Self',) or re.fullmatch(r'[A-Z]\w?', ty or '') or (ty or '').startswith('dyn ') or (ty or '').startswith('<'):
            rt = self.runtime_type(args[0]) if args else None
            if rt:
                cands = [rt, ty]
        # `<X as Trait<.., X>>::m` with a blanket `impl<T> Trait<.., Self> for T`: the reflexive instance is the blanket one
        # even when X also has its own impl of the trait for another argument (`Upcast<LTerm> for Option<T>`)
        if key.trait and '<' in key.trait and ty and key.trait.split('<', 1)[1][:-1] == ty and (ty, key.trait, key.method) not in p.impls:
            base0 = key.trait.split('<')[0]
            for (ty2, tr, m2), nm in p.impls.items():
                if m2 == key.method and tr == base0 + '<Self>' and re.fullmatch(r'[A-Z]', ty2 or ''):
                    return nm
        for t in cands:
            n = p.impls.get((t, key.trait, key.method))
            if n:
                vs = p.impl_variants.get((t, key.trait, key.method), [])
                if len(vs) > 1 and args:
                    # impls that differ only in a type argument (`Conde<U, E, Goal<U, E>>` vs `Conde<U, E, DFSGoal<U, E>>`)
                    kind = self.goal_kind(args[0]) or self.generics.get('G')
                    for hdr, nm in vs:
                        hs = hdr.split(' for ')[-1]
                        has_dfs = 'DFSGoal<' in hs
                        if kind == 'DFSGoal' and has_dfs:
                            return nm
                        if kind == 'Goal' and not has_dfs and 'Goal<' in hs:
                            return nm
                return n
            # trait key may carry an argument that the impl header spells differently
            base = key.trait.split('<')[0] if key.trait else None
            hits = [nm for (ty2, tr, m), nm in p.impls.items()
                    if ty2 == t and m == key.method and tr and tr.split('<')[0] == base]
            if len(hits) == 1:
                return hits[0]
            # several impls of the same trait for this type: a concrete trait argument did not match, so
            # take the one that is generic in that argument (`impl<G> GoalCast<U, E, G> for InferredGoal<U, E, G>`)
            gen = [nm for (ty2, tr, m), nm in p.impls.items()
                   if ty2 == t and m == key.method and tr and tr.split('<')[0] == base and re.search(r'<[A-Z]\w?>$', tr)]
            if len(gen) == 1:
                return gen[0]
        # blanket impls (`impl<T> Trait for T`)
        base = key.trait.split('<')[0] if key.trait else None
        for (ty2, tr, m), nm in p.impls.items():
            if m == key.method and tr and tr.split('<')[0] == base and re.fullmatch(r'[A-Z]', ty2 or ''):
                return nm
        if base and (base, key.method) in p.defaults:
            return p.defaults[(base, key.method)]
        return None


def NotEncodableValue(o):
    raise NotEncodable('const %r' % (o,))


# ==============================================================================================
# Path exploration
# ==============================================================================================

class PathResult(object):
    __slots__ = ('status', 'value', 'ctx', 'detail', 'machine')


def explore(make_machine, scenario, max_paths=200000, on_path=None, time_budget=None, initial=None,
            frontier_target=None):
    """(see below) With `frontier_target` the search runs shortest-prefix-first and stops as soon as
    that many unexplored prefixes are pending; they are returned in stats['frontier'] so that a
    caller can distribute the remaining sub-trees over worker processes."""
    return _explore(make_machine, scenario, max_paths, on_path, time_budget, initial, frontier_target)


def _explore(make_machine, scenario, max_paths=200000, on_path=None, time_budget=None, initial=None,
             frontier_target=None):
    """Run `scenario(machine)` along every feasible path.

    `make_machine(ctx)` builds a Machine for a fresh Ctx; `scenario` drives it and returns any
    value; `on_path(PathResult)` is called for every completed path (status 'ok' | 'panic' |
    'abort' | 'notenc').  Returns statistics."""
    work = [list(p) for p in initial] if initial is not None else [[]]
    ninit_len = {tuple(p): len(p) for p in (initial or [])}
    stats = {'paths': 0, 'ok': 0, 'panic': 0, 'abort': 0, 'notenc': 0, 'solver_calls': 0,
             'steps': 0, 'truncated': False, 'notenc_reasons': {}}
    t0 = time.time()
    while work:
        if stats['paths'] >= max_paths or (time_budget and time.time() - t0 > time_budget):
            stats['truncated'] = True
            break
        if frontier_target is not None:
            if len(work) >= frontier_target:
                break
            work.sort(key=len, reverse=True)
        prefix = work.pop()
        ctx = Ctx(prefix, validate=(ninit_len.get(tuple(prefix), 0)))
        m = make_machine(ctx)
        r = PathResult()
        r.ctx, r.machine, r.value, r.detail = ctx, m, None, ''
        try:
            r.value = scenario(m)
            r.status = 'ok'
            if ctx.deferred:
                # could any of the deferred panic conditions (arithmetic overflow) have fired?
                res, model = ctx.query(z3.Or(*[c for c, _ in ctx.deferred]))
                if res == z3.unknown:
                    raise NotEncodable('solver unknown on deferred overflow conditions')
                if res == z3.sat:
                    msgs = [msg for c, msg in ctx.deferred if z3.is_true(model.eval(c, model_completion=True))]
                    ctx.assume(z3.Or(*[c for c, _ in ctx.deferred]))
                    raise Panic(msgs[0] if msgs else 'arithmetic overflow')
        except Panic as e:
            r.status, r.detail = 'panic', str(e)
        except PathAbort as e:
            r.status, r.detail = 'abort', str(e)
        except NotEncodable as e:
            if os.environ.get('MIRSYM_DEBUG'):
                raise
            r.status, r.detail = 'notenc', str(e)
            stats['notenc_reasons'][str(e)[:200]] = stats['notenc_reasons'].get(str(e)[:200], 0) + 1
        except RecursionError:
            r.status, r.detail = 'notenc', 'python recursion limit'
            stats['notenc_reasons']['python recursion limit'] = stats['notenc_reasons'].get('python recursion limit', 0) + 1
        work.extend(ctx.spawned)
        stats['paths'] += 1
        stats[r.status] += 1
        stats['solver_calls'] += ctx.solver_calls
        stats['steps'] += m.steps
        if on_path is not None:
            on_path(r)
    stats['wall_s'] = round(time.time() - t0, 3)
    stats['frontier'] = work if frontier_target is not None else []
    if frontier_target is not None:
        stats['truncated'] = False
    return stats
