"""Whole-program layer of mirsym: program templates with symbolic integer parameters.

A *program* is a Python AST (below).  `emit_crate` writes a Rust crate whose functions build the
program with the real `proto_vulcan_query!` macro and run it with the real engine; its MIR is
dumped next to the library's and executed symbolically (parameters = solver variables).  The
same AST is evaluated by the reference interpreter `Ref` (plain miniKanren semantics: first-order
unification with occurs check, disequality constraints as disjunctions of pair inequalities,
depth-first answer order), which forks on the same solver context.  `compare` then decides, per
feasible path, whether the engine's answers and the reference answers agree (as sequences or
as multisets), answer terms up to renaming of free variables and attached disequalities up to
logical equivalence over all ground instances (z3 datatype).

Terms : ('num', k) | ('par', i) | ('var', name) | ('nil',) | ('list', [t..], tail|None)
        | ('bool', b) | ('str', s) | ('any',) | ('pair', a, b)
Goals : ('eq', t, t) | ('diseq', t, t) | ('succeed',) | ('fail',) | ('conj', [g..])
        | ('conde', [[g..]..]) | ('cond', [[g..]..]) | ('fresh', [names], [g..])
        | ('conda', [[g..]..]) | ('condu', [[g..]..]) | ('onceo', [g..]) | ('dfs', [g..])
        | ('rel', name, [t..]) | ('loop', [g..]) | ('anyo', [g..])
"""
import itertools
import os
import re

import z3

from values import Adt, Ref, Lazy, NotEncodable, PathAbort
from models import val
import harness as H
import terms as TM


# ==============================================================================================
# Rust emission
# ==============================================================================================

def term_src(t):
    k = t[0]
    if k == 'num':
        return str(t[1])
    if k == 'par':
        return 'p%d' % t[1]
    if k == 'var':
        return t[1]
    if k == 'nil':
        return '[]'
    if k == 'list':
        items = ', '.join(term_src(x) for x in t[1])
        if t[2] is None:
            return '[%s]' % items
        return '[%s | %s]' % (items, term_src(t[2]))
    if k == 'bool':
        return 'true' if t[1] else 'false'
    if k == 'str':
        return '"%s"' % t[1]
    if k == 'any':
        return '_'
    if k == 'pair':
        return '(%s, %s)' % (term_src(t[1]), term_src(t[2]))
    if k == 'cmp':
        # value of a #[compound] struct (STRUCTS); named structs can only be written as match patterns
        if STRUCTS[t[1]][0] == 'named':
            return '%s { %s }' % (t[1], ', '.join(term_src(a) for a in t[2]))
        return '%s(%s)' % (t[1], ', '.join(term_src(a) for a in t[2]))
    if k == 'some':
        return 'Some(%s)' % term_src(t[1])
    if k == 'none':
        return 'None'
    raise ValueError(t)


# #[compound] structs available to templates: name -> (kind, field names)
STRUCTS = {
    'Leaf': ('unnamed', ['0']),
    'Wrap': ('unnamed', ['0']),
    'Pt': ('unnamed', ['0', '1']),
    'Node': ('unnamed', ['0', '1']),       # (LTerm, Option<Leaf>)
    'Named': ('named', ['a', 'b']),        # { a: LTerm, b: Leaf }
    'Tree': ('unnamed', ['0', '1', '2']),  # (LTerm, Tree, Tree)
}

STRUCT_DEFS = '''#[compound]
struct Leaf(LTerm);
#[compound]
struct Wrap(LTerm);
#[compound]
struct Pt(LTerm, LTerm);
#[compound]
struct Node(LTerm, Option<Leaf>);
#[compound]
struct Named { a: LTerm, b: Leaf }
#[compound]
struct Tree(LTerm, Tree, Tree);
'''


from terms import enc_list, enc_cmp, dec_cmp


def uses_structs(x):
    if isinstance(x, tuple):
        if x and x[0] in ('cmp', 'some', 'none'):
            return True
        return any(uses_structs(y) for y in x)
    if isinstance(x, list):
        return any(uses_structs(y) for y in x)
    if isinstance(x, str):
        return ':' in x and x.split(':')[1].strip() in STRUCTS
    return False


def clause_src(gs):
    if len(gs) == 1:
        return goal_src(gs[0])
    return '[%s]' % ', '.join(goal_src(g) for g in gs)


def goal_src(g):
    k = g[0]
    if k == 'eq':
        return '%s == %s' % (term_src(g[1]), term_src(g[2]))
    if k == 'diseq':
        return '%s != %s' % (term_src(g[1]), term_src(g[2]))
    if k == 'succeed':
        return 'true'
    if k == 'fail':
        return 'false'
    if k == 'conj':
        return '[%s]' % ', '.join(goal_src(x) for x in g[1])
    if k in ('conde', 'cond', 'conda', 'condu', 'dfsor', 'bfsor'):
        return '%s { %s }' % (k, ', '.join(clause_src(c) for c in g[1]))
    if k in ('onceo', 'dfs', 'loop', 'anyo'):
        return '%s { %s }' % (k, ', '.join(clause_src(x) if isinstance(x, list) else goal_src(x) for x in g[1]))
    if k == 'fresh':
        return '|%s| { %s }' % (', '.join(g[1]), ', '.join(goal_src(x) for x in g[2]))
    if k == 'fd':
        # ('fd', 'infd', target term, [values]) | ('fd', 'infdrange', target term, (lo, hi))
        if g[1] == 'infd':
            return 'infd(%s, &[%s])' % (term_src(g[2]), ', '.join(str(v) for v in g[3]))
        return 'infdrange(%s, &(%d..=%d))' % (term_src(g[2]), g[3][0], g[3][1])
    if k == 'rel':
        return '%s(%s)' % (g[1], ', '.join(term_src(x) for x in g[2]))
    if k == 'closure':
        return 'closure { %s }' % ', '.join(goal_src(x) for x in g[1])
    if k == 'twice':
        # one goal VALUE used at two places of a conjunction (Rust-level combinator of the prelude)
        r = g[1]
        assert r[0] == 'rel'
        return 'twice({ %s(%s) })' % (r[1], ', '.join('%s.clone()' % term_src(a) if a[0] in ('var', 'par') else 'lterm!(%s)' % term_src(a) for a in r[2]))
    if k == 'project':
        return 'project |%s| { %s }' % (', '.join(g[1]), ', '.join(goal_src(x) for x in g[2]))
    if k == 'for':
        return 'for %s in &%s { %s }' % (g[1], g[2], ', '.join(goal_src(x) for x in g[4]))
    if k == 'match':
        arms = []
        for pats, body in g[3]:
            b = ', '.join(goal_src(x) for x in body)
            arms.append('%s => %s' % (' | '.join(term_src(pt) for pt in pats), ('{ %s }' % b) if len(body) != 1 else b))
        return '%s %s { %s }' % (g[1], term_src(g[2]), ', '.join(arms))
    raise ValueError(g)


def params_of(x, acc=None):
    acc = set() if acc is None else acc
    if isinstance(x, tuple):
        if x and x[0] == 'par':
            acc.add(x[1])
        for y in x:
            params_of(y, acc)
    elif isinstance(x, list):
        for y in x:
            params_of(y, acc)
    return acc


USER_RS = '''/// User type that counts the hook calls (C22).
#[derive(Debug, Clone, Default)]
pub struct CntUser {
    pub with_calls: isize,
    pub take_calls: isize,
    pub ext_calls: isize,
    pub last_ext_len: isize,
}

impl User for CntUser {
    type UserTerm = ();
    type UserContext = ();

    fn process_extension<E: Engine<Self>>(
        mut state: State<Self, E>,
        extension: &proto_vulcan::state::SMap<Self, E>,
    ) -> proto_vulcan::state::SResult<Self, E> {
        state.user_state.ext_calls += 1;
        state.user_state.last_ext_len = extension.iter().count() as isize;
        Ok(state)
    }

    fn with_constraint<E: Engine<Self>>(state: &mut State<Self, E>, _c: &Rc<dyn Constraint<Self, E>>) {
        state.user_state.with_calls += 1;
    }

    fn take_constraint<E: Engine<Self>>(state: &mut State<Self, E>, _c: &Rc<dyn Constraint<Self, E>>) {
        state.user_state.take_calls += 1;
    }
}

pub type CE = DefaultEngine<CntUser>;
pub type TC = LTerm<CntUser, CE>;
pub type RC = proto_vulcan::lresult::LResult<CntUser, CE>;

/// Probe goal: unifies `out` with [with - take - (constraints in the store), ext_calls, last_ext_len].
#[derive(Debug)]
pub struct Probe {
    out: TC,
}

impl Solve<CntUser, CE> for Probe {
    fn solve(&self, _solver: &Solver<CntUser, CE>, state: State<CntUser, CE>) -> Stream<CntUser, CE> {
        let stored = state.cstore_ref().iter().count() as isize;
        let balance = state.user_state.with_calls - state.user_state.take_calls - stored;
        let rec: TC = LTerm::from_vec(vec![
            LTerm::from(balance),
            LTerm::from(state.user_state.ext_calls),
            LTerm::from(state.user_state.last_ext_len),
        ]);
        // the probe itself must not disturb the counters: bind `out` directly
        let mut state = state;
        let target = state.smap_ref().walk(&self.out).clone();
        if target.is_var() {
            state.smap_to_mut().extend(target, rec);
            Stream::unit(Box::new(state))
        } else {
            Stream::empty()
        }
    }
}

pub fn probe(out: TC) -> Goal<CntUser, CE> {
    Goal::dynamic(Rc::new(Probe { out }))
}

'''

PRELUDE = '''//! GENERATED by /verif/mirsym/prog.py -- program templates for mirsym (do not edit).
#![allow(dead_code, unused_imports, unused_variables, unused_mut, non_snake_case)]
use proto_vulcan::prelude::*;
use proto_vulcan::lterm::LTerm;
use proto_vulcan::operator::{anyo, cond, conda, condu, dfs, onceo};
use proto_vulcan::relation::{append, cons, distinct, empty, first, member, member1, permute, rember, rest};
use proto_vulcan::relation::diseq;
use proto_vulcan::relation::always::always;
use proto_vulcan::relation::never::never;
use proto_vulcan::relation::{diseqfd, distinctfd, infd, infdrange, ltefd, ltfd, minusfd, plusfd, timesfd};
use proto_vulcan::relation::clpz::plusz::plusz;
use proto_vulcan::relation::clpz::timesz::timesz;

use proto_vulcan::operator::{matche, matcha, matchu};
use proto_vulcan::solver::{Solve, Solver};
use proto_vulcan::state::State;
use proto_vulcan::stream::Stream;
use std::rc::Rc;

type T = LTerm<DefaultUser, DefaultEngine<DefaultUser>>;
type TU = DefaultUser;
type TE = DefaultEngine<DefaultUser>;
pub type R = proto_vulcan::lresult::LResult<DefaultUser, DefaultEngine<DefaultUser>>;

/// Non-relational observer used inside `project`: looks at the term `u` ITSELF at solve time (no walk);
/// succeeds iff it (mode 0) or its first list element (mode 1) is a number n, and then unifies `v` with n + 1.
#[derive(Debug)]
pub struct Succ {
    u: T,
    v: T,
    mode: usize,
}

impl Solve<TU, TE> for Succ {
    fn solve(&self, _solver: &Solver<TU, TE>, state: State<TU, TE>) -> Stream<TU, TE> {
        let n = if self.mode == 0 { self.u.get_number() } else { self.u.head().and_then(|h| h.get_number()) };
        match n {
            Some(n) => match state.unify(&LTerm::from(n + 1), &self.v) {
                Ok(st) => Stream::unit(Box::new(st)),
                Err(_) => Stream::empty(),
            },
            None => Stream::empty(),
        }
    }
}

/// Non-relational observer: compares the two terms THEMSELVES with Rust `==` at solve time (no walk) and unifies
/// `out` with 1 if they are the same term, else 0.
#[derive(Debug)]
pub struct SameVar {
    u: T,
    v: T,
    out: T,
}

impl Solve<TU, TE> for SameVar {
    fn solve(&self, _solver: &Solver<TU, TE>, state: State<TU, TE>) -> Stream<TU, TE> {
        let same = if self.u == self.v { 1 } else { 0 };
        match state.unify(&LTerm::from(same), &self.out) {
            Ok(st) => Stream::unit(Box::new(st)),
            Err(_) => Stream::empty(),
        }
    }
}

pub fn samevar(u: T, v: T, out: T) -> Goal<TU, TE> {
    Goal::dynamic(Rc::new(SameVar { u, v, out }))
}

@@USER_RS@@
pub fn succ(u: T, v: T) -> Goal<TU, TE> {
    Goal::dynamic(Rc::new(Succ { u, v, mode: 0 }))
}

pub fn succ_head(u: T, v: T) -> Goal<TU, TE> {
    Goal::dynamic(Rc::new(Succ { u, v, mode: 1 }))
}
@@HELPERS_RS@@'''

HELPERS_RS = '''
/// `d` is introduced inside the closure body: d is one of lo, hi and one of a, b is d.
pub fn pick(a: T, b: T, lo: T, hi: T) -> Goal<TU, TE> {
    proto_vulcan_closure!(|d| {
        member(d, [lo, hi]),
        conde {
            a == d,
            b == d,
        }
    })
}

/// Silent diverger made of a recursive closure with a fresh variable (an endless chain of pauses).
pub fn nevero(x: T) -> Goal<TU, TE> {
    proto_vulcan_closure!(|y| { nevero(y) })
}

/// Silent diverger usable inside `dfs { }` as well: every recursion is wrapped in a closure, so every search step is finite.
pub fn spin<G: AnyGoal<TU, TE>>() -> proto_vulcan::goal::InferredGoal<TU, TE, G> {
    proto_vulcan_closure!([true, spin()])
}

/// User-defined operators over the crate's binary disjunction nodes (`operator::disj`), which the built-in syntax never builds.
pub fn dfsor(param: proto_vulcan::operator::OperatorParam<TU, TE, proto_vulcan::goal::DFSGoal<TU, TE>>) -> proto_vulcan::goal::DFSGoal<TU, TE> {
    proto_vulcan::operator::disj::DFSDisj::from_conjunctions(param.body)
}

pub fn bfsor(param: proto_vulcan::operator::OperatorParam<TU, TE, Goal<TU, TE>>) -> Goal<TU, TE> {
    proto_vulcan::operator::disj::Disj::from_conjunctions(param.body)
}

/// Rust-written goal using the mutable list API on its own clone of a bound term: out == walk(x) with `v` appended.
pub fn pusho(x: T, v: T, out: T) -> Goal<TU, TE> {
    proto_vulcan!(fngoal move |_solver, state| {
        let mut l: T = state.smap_ref().walk(&x).clone();
        l.extend(Some(v.clone()));
        match state.unify(&out, &l) {
            Ok(st) => Stream::unit(Box::new(st)),
            Err(_) => Stream::empty(),
        }
    })
}

/// The same goal value solved twice in a row.
pub fn twice(g: Goal<TU, TE>) -> Goal<TU, TE> {
    let g2 = g.clone();
    proto_vulcan!([g, g2])
}
'''


PRELUDE = PRELUDE.replace('@@USER_RS@@', USER_RS).replace('@@HELPERS_RS@@', HELPERS_RS)


def emit_fn(name, prog, nparams, extra=None):
    extra = extra or {}
    if extra.get('user') == 'CntUser':
        return emit_fn_user(name, prog, nparams, extra)
    args = ''.join('a%d: isize, ' % i for i in range(nparams))
    lets = ''.join('    let p%d: T = LTerm::from(a%d);\n' % (i, i) for i in range(nparams))
    lets += ''.join('    let %s: T = LTerm::var("%s");\n' % (v, v) for v in extra.get('vars', []))
    for cname, (ckind, elems) in extra.get('colls', {}).items():
        if ckind == 'vec':
            lets += '    let %s: Vec<T> = vec![%s];\n' % (cname, ', '.join('%s.clone()' % term_src(e) if e[0] in ('var', 'par') else 'lterm!(%s)' % term_src(e) for e in elems))
        else:
            lets += '    let %s: T = lterm!([%s]);\n' % (cname, ', '.join(term_src(e) for e in elems))
    body = ',\n        '.join(goal_src(g) for g in prog)
    return '''
pub fn %s(%slimit: usize) -> Vec<Vec<R>> {
%s    let query = proto_vulcan_query!(|q| {
        %s
    });
    let mut out = vec![];
    let mut it = query.run();
    while out.len() < limit {
        match it.next() {
            Some(r) => out.push(vec![r.q]),
            None => {
                // the iterator is fused: once exhausted it must stay exhausted
                for _ in 0..2 {
                    if let Some(r) = it.next() {
                        out.push(vec![r.q]);
                    }
                }
                break;
            }
        }
    }
    out
}
''' % (name, args, lets, body)


def emit_fn_user(name, prog, nparams, extra):
    """Custom User type: `proto_vulcan_query!` is tied to DefaultUser, so the goal is built with
    `proto_vulcan!` and run with an explicit Solver; answers are walk*(q) (not reified)."""
    args = ''.join('a%d: isize, ' % i for i in range(nparams))
    lets = ''.join('    let p%d: TC = LTerm::from(a%d);\n' % (i, i) for i in range(nparams))
    body = ',\n        '.join(goal_src(g) for g in prog)
    if extra.get('reify_balance'):
        # the answer state after reification: [reified q, #with_constraint - #take_constraint - |constraint store|]
        return '''
pub fn %s(%slimit: usize) -> Vec<TC> {
%s    let q: TC = LTerm::var("q");
    let goal: Goal<CntUser, CE> = proto_vulcan!([
        %s,
        proto_vulcan::state::reify(q.clone())
    ]);
    let mut solver: Solver<CntUser, CE> = Solver::new((), false);
    let mut stream = solver.start(&goal, State::new(CntUser::default()));
    let mut out = vec![];
    while out.len() < limit {
        match solver.next(&mut stream) {
            Some(st) => {
                let bal = st.user_state.with_calls - st.user_state.take_calls - (st.cstore_ref().iter().count() as isize);
                out.push(LTerm::from_vec(vec![st.smap_ref().walk_star(&q), LTerm::from(bal)]))
            }
            None => break,
        }
    }
    out
}
''' % (name, args, lets, body)
    return '''
pub fn %s(%slimit: usize) -> Vec<TC> {
%s    let q: TC = LTerm::var("q");
    let goal: Goal<CntUser, CE> = proto_vulcan!([
        %s
    ]);
    let mut solver: Solver<CntUser, CE> = Solver::new((), false);
    let mut stream = solver.start(&goal, State::new(CntUser::default()));
    let mut out = vec![];
    while out.len() < limit {
        match solver.next(&mut stream) {
            Some(st) => out.push(st.smap_ref().walk_star(&q)),
            None => break,
        }
    }
    out
}
''' % (name, args, lets, body)


def emit_crate(dirpath, templates):
    """templates: list of (name, prog, nparams)."""
    os.makedirs(os.path.join(dirpath, 'src'), exist_ok=True)
    os.makedirs(os.path.join(dirpath, '.cargo'), exist_ok=True)
    open(os.path.join(dirpath, 'Cargo.toml'), 'w').write(
        '[package]\nname = "mirh"\nversion = "0.0.0"\nedition = "2018"\n\n[dependencies]\nproto-vulcan = { path = "/repo" }\n\n[workspace]\n')
    open(os.path.join(dirpath, '.cargo', 'config.toml'), 'w').write('[net]\noffline = true\n')
    lock = '/repo/Cargo.lock'
    if os.path.exists(lock):
        import shutil
        shutil.copyfile(lock, os.path.join(dirpath, 'Cargo.lock'))
    src = PRELUDE
    if any(uses_structs(t[1]) for t in templates):
        open(os.path.join(dirpath, 'src', 'cdefs.rs'), 'w').write(expand_struct_defs(dirpath))
        src += '\npub mod cdefs;\npub use cdefs::*;\n'
    src += ''.join(emit_fn(*t) for t in templates)
    open(os.path.join(dirpath, 'src', 'lib.rs'), 'w').write(src)
    return src


def expand_struct_defs(dirpath):
    """The #[compound] attribute generates a dozen impls per struct that all carry the span of the attribute,
    so the MIR dump could not tell them apart.  The definitions are therefore expanded first by the REAL macro
    (`rustc -Zunpretty=expanded` on a crate that contains only STRUCT_DEFS, rebuilt from /repo's macros on every
    run) and the expansion becomes an ordinary source module of the template crate."""
    import subprocess
    d = os.path.join(dirpath, 'cdefs')
    os.makedirs(os.path.join(d, 'src'), exist_ok=True)
    os.makedirs(os.path.join(d, '.cargo'), exist_ok=True)
    open(os.path.join(d, 'Cargo.toml'), 'w').write(
        '[package]\nname = "cdefs"\nversion = "0.0.0"\nedition = "2018"\n\n[dependencies]\nproto-vulcan = { path = "/repo" }\n\n[workspace]\n')
    open(os.path.join(d, '.cargo', 'config.toml'), 'w').write('[net]\noffline = true\n')
    if os.path.exists('/repo/Cargo.lock'):
        import shutil
        shutil.copyfile('/repo/Cargo.lock', os.path.join(d, 'Cargo.lock'))
    open(os.path.join(d, 'src', 'lib.rs'), 'w').write('#![allow(dead_code)]\nuse proto_vulcan::prelude::*;\n// @@CUT@@\n' + STRUCT_DEFS)
    env = dict(os.environ, CARGO_NET_OFFLINE='true', CARGO_TARGET_DIR=os.path.join(os.path.dirname(dirpath), 'mirtarget-cdefs'))
    p = subprocess.run(['cargo', '+nightly', 'rustc', '--offline', '--lib', '--', '-Zunpretty=expanded'], cwd=d, env=env,
                       stdout=subprocess.PIPE, stderr=subprocess.PIPE, text=True)
    if p.returncode != 0 or 'pub struct Leaf' not in p.stdout:
        raise RuntimeError('expansion of the #[compound] definitions failed: ' + p.stderr[-2000:])
    txt = p.stdout
    txt = txt[txt.index('use proto_vulcan::prelude::*;'):]
    # the vec![..] expansion uses compiler-internal functions: fold it back
    pat = re.compile(r'::alloc::boxed::box_assume_init_into_vec_unsafe\(\s*::alloc::intrinsics::write_box_via_move\(\s*::alloc::boxed::Box::new_uninit\(\),\s*\[')
    while True:
        mm = pat.search(txt)
        if not mm:
            break
        i = mm.end() - 1
        depth, j = 0, i
        while True:
            c = txt[j]
            if c in '([{':
                depth += 1
            elif c in ')]}':
                depth -= 1
                if depth == 0:
                    break
            j += 1
        tail = re.match(r'\s*\)\s*\)', txt[j + 1:])
        if not tail:
            raise RuntimeError('unexpected vec! expansion shape')
        txt = txt[:mm.start()] + 'vec!' + txt[i:j + 1] + txt[j + 1 + tail.end():]
    # derive(Eq) bodies use unstable helpers; the marker impl is all that is needed
    txt = re.sub(r'(?:#\[[a-z_]+(?:\([a-z]+\))?\]\s*)*fn assert_fields_are_eq\(&self\) \{[^}]*\}', '', txt)
    txt = txt.replace('#[coverage(off)]', '')
    return '// GENERATED: expansion of the #[compound] struct definitions by the real attribute macro\n#![allow(dead_code, non_snake_case, unused_imports)]\n' + txt


# ==============================================================================================
# Reference interpreter (terms: ('num', z3|int) ('var', uid) ('nil',) ('cons', h, t) ('bool', b) ('str', s) ('pair', a, b))
# ==============================================================================================

def pattern_vars(t, acc):
    if t[0] == 'var':
        acc.add(t[1])
    elif t[0] == 'list':
        for x in t[1]:
            pattern_vars(x, acc)
        if t[2] is not None:
            pattern_vars(t[2], acc)
    elif t[0] == 'pair':
        pattern_vars(t[1], acc)
        pattern_vars(t[2], acc)
    elif t[0] == 'cmp':
        for x in t[2]:
            pattern_vars(x, acc)
    elif t[0] == 'some':
        pattern_vars(t[1], acc)
    return acc


FD_RELS = ('ltefd', 'ltfd', 'diseqfd', 'plusfd', 'minusfd', 'timesfd', 'distinctfd')


def flat(items):
    """operator bodies: a clause is a goal or a list of goals (bracketed conjunction)"""
    out = []
    for x in items:
        if isinstance(x, list):
            out.append(('conj', x))
        else:
            out.append(x)
    return out


class RefFail(Exception):
    pass


class RState(object):
    __slots__ = ('s', 'd', 'fd', 'ext')

    def __init__(self, s=None, d=None, fd=None, ext=(0, 0)):
        self.ext = ext            # (number of successful unifications so far, bindings added by the last one)
        self.s = s or {}
        self.d = d or []          # list of constraints; constraint = list of (u, v) pairs (a disjunction of u != v)
        self.fd = fd or ((), ())  # (domains: ((term, (values..)), ..), constraints: ((kind, (terms..)), ..))


class Ref(object):
    def __init__(self, ctx, params, max_answers=200, max_depth=40):
        self.ctx = ctx
        self.params = params
        self.counter = 0
        self.max_answers = max_answers
        self.max_depth = max_depth
        self.truncated = False
        self.infinite = False
        self.has_fd = False
        self.has_z = False
        self.track_ext = False

    def fresh(self, name='v'):
        self.counter += 1
        return ('var', 'r%d_%s' % (self.counter, name))

    # ---- terms ---------------------------------------------------------------------------
    def term(self, t, env):
        k = t[0]
        if k == 'num':
            return ('num', t[1])
        if k == 'par':
            return ('num', self.params[t[1]])
        if k == 'var':
            return env[t[1]]
        if k == 'nil':
            return ('nil',)
        if k == 'list':
            tail = self.term(t[2], env) if t[2] is not None else ('nil',)
            for x in reversed(t[1]):
                tail = ('cons', self.term(x, env), tail)
            return tail
        if k == 'bool':
            return ('bool', t[1])
        if k == 'str':
            return ('str', t[1])
        if k == 'any':
            return self.fresh('any')
        if k == 'pair':
            return ('pair', self.term(t[1], env), self.term(t[2], env))
        if k == 'cmp':
            return enc_cmp(t[1], [self.term(a, env) for a in t[2]])
        if k == 'some':
            return enc_cmp('Some', [self.term(t[1], env)])
        if k == 'none':
            return enc_cmp('None', [])
        raise ValueError(t)

    def walk(self, t, s):
        while t[0] == 'var' and t[1] in s:
            t = s[t[1]]
        return t

    def walk_star(self, t, s):
        t = self.walk(t, s)
        if t[0] in ('cons', 'pair'):
            return (t[0], self.walk_star(t[1], s), self.walk_star(t[2], s))
        return t

    def occurs(self, x, t, s):
        t = self.walk(t, s)
        if t[0] == 'var':
            return t[1] == x
        if t[0] in ('cons', 'pair'):
            return self.occurs(x, t[1], s) or self.occurs(x, t[2], s)
        return False

    def num_eq(self, a, b):
        if not z3.is_expr(a) and not z3.is_expr(b):
            return a == b
        return self.ctx.branch(H.bv(a) == H.bv(b), 'reference: number equality')

    def unify(self, u, v, s):
        """Returns extended substitution (new dict) or None."""
        u, v = self.walk(u, s), self.walk(v, s)
        if u[0] == 'var' and v[0] == 'var' and u[1] == v[1]:
            return s
        if u[0] == 'var':
            if self.occurs(u[1], v, s):
                return None
            s2 = dict(s)
            s2[u[1]] = v
            return s2
        if v[0] == 'var':
            if self.occurs(v[1], u, s):
                return None
            s2 = dict(s)
            s2[v[1]] = u
            return s2
        if u[0] != v[0]:
            return None
        if u[0] == 'num':
            return s if self.num_eq(u[1], v[1]) else None
        if u[0] in ('bool', 'str'):
            return s if u[1] == v[1] else None
        if u[0] == 'nil':
            return s
        if u[0] in ('cons', 'pair'):
            s1 = self.unify(u[1], v[1], s)
            if s1 is None:
                return None
            return self.unify(u[2], v[2], s1)
        raise ValueError(u)

    def recheck(self, st):
        """Re-evaluate the disequality constraints of a state; None if one is violated."""
        out = []
        for c in st.d:
            s2 = st.s
            dead = False
            for (k, v) in c:
                s2 = self.unify(k, v, s2)
                if s2 is None:
                    dead = True           # some pair can never be equal: constraint holds forever
                    break
            if dead:
                continue
            new = [(('var', k), s2[k]) for k in s2 if k not in st.s]
            if not new:
                return None               # all pairs are equal already: violated
            out.append(new)
        return RState(st.s, out, st.fd, st.ext)

    # ---- goals: list of states in depth-first order ------------------------------------------
    def run(self, g, st, env, depth=0):
        if depth > self.max_depth:
            self.truncated = True
            return []
        k = g[0]
        if k == 'succeed':
            return [st]
        if k == 'fail':
            return []
        if k == 'eq':
            s2 = self.unify(self.term(g[1], env), self.term(g[2], env), st.s)
            if s2 is None:
                return []
            st2 = self.recheck(RState(s2, st.d, st.fd, (st.ext[0] + 1, len(s2) - len(st.s))))
            return [st2] if st2 is not None else []
        if k == 'diseq':
            st2 = self.recheck(RState(st.s, st.d + [[(self.term(g[1], env), self.term(g[2], env))]], st.fd, st.ext))
            return [st2] if st2 is not None else []
        if k in ('conj', 'dfs'):
            return self.run_conj(flat(g[1]), st, env, depth)
        if k in ('conde', 'cond', 'dfsor', 'bfsor'):
            out = []
            for clause in g[1]:
                out += self.run_conj(clause, st, env, depth)
                if len(out) > self.max_answers:
                    self.truncated = True
                    break
            return out
        if k == 'fresh':
            env2 = dict(env)
            for n in g[1]:
                n = n.split(':')[0].strip()      # `x: Leaf` -- typed variables are ordinary variables for the reference
                env2[n] = self.fresh(n)
            return self.run_conj(g[2], st, env2, depth)
        if k in ('conda', 'condu'):
            for clause in g[1]:
                heads = self.run(clause[0], st, env, depth)
                if heads:
                    if k == 'condu':
                        heads = heads[:1]
                    out = []
                    for h in heads:
                        out += self.run_conj(clause[1:], h, env, depth)
                    return out
            return []
        if k == 'onceo':
            return self.run_conj(flat(g[1]), st, env, depth)[:1]
        if k == 'fd':
            target = self.term(g[2], env)
            dom = tuple(sorted(set(g[3]))) if g[1] == 'infd' else tuple(range(g[3][0], g[3][1] + 1))
            items = []
            tw = self.walk(target, st.s)
            if tw[0] in ('cons', 'nil'):
                while tw[0] == 'cons':
                    items.append(tw[1])
                    tw = self.walk(tw[2], st.s)
            else:
                items = [target]
            self.has_fd = True
            return [RState(st.s, st.d, (st.fd[0] + tuple((it, dom) for it in items), st.fd[1]), st.ext)]
        if k == 'rel' and g[1] in ('plusz', 'timesz'):
            self.has_z = True
            return [RState(st.s, st.d, (st.fd[0], st.fd[1] + ((g[1], tuple(self.term(a, env) for a in g[2])),)), st.ext)]
        if k == 'rel' and g[1] in FD_RELS:
            self.has_fd = True
            return [RState(st.s, st.d, (st.fd[0], st.fd[1] + ((g[1], tuple(self.term(a, env) for a in g[2])),)), st.ext)]
        if k == 'rel':
            return self.run_rel(g[1], [self.term(a, env) for a in g[2]], st, depth)
        if k == 'closure':
            return self.run_conj(g[1], st, env, depth)
        if k == 'twice':
            return self.run_conj([g[1], g[1]], st, env, depth)
        if k in ('loop', 'anyo'):
            self.infinite = True
            return self.run_conj(flat(g[1]), st, env, depth)      # one round; callers compare in 'subset' mode
        if k == 'project':
            env2 = dict(env)
            for n in g[1]:
                env2[n] = self.walk_star(env[n], st.s)
            return self.run_conj(g[2], st, env2, depth)
        if k == 'for':
            states = [st]
            for e in g[3]:
                env2 = dict(env)
                env2[g[1]] = self.term(e, env)
                nxt = []
                for s1 in states:
                    nxt += self.run_conj(g[4], s1, env2, depth)
                states = nxt
            return states
        if k == 'match':
            kind, t, arms = g[1], self.term(g[2], env), g[3]
            clauses = []
            for pats, body in arms:
                for pt in pats:
                    env2 = dict(env)
                    for n in sorted(pattern_vars(pt, set())):
                        env2[n] = self.fresh(n)
                    clauses.append((self.term(pt, env2), body, env2))
            if kind in ('match', 'matche'):
                out = []
                for pterm, body, env2 in clauses:
                    for s1 in self.eq_goal(t, pterm, st):
                        out += self.run_conj(body, s1, env2, depth)
                return out
            for pterm, body, env2 in clauses:
                heads = self.eq_goal(t, pterm, st)
                if heads:
                    if kind == 'matchu':
                        heads = heads[:1]
                    out = []
                    for h in heads:
                        out += self.run_conj(body, h, env2, depth)
                    return out
            return []
        raise ValueError('reference: goal ' + k)

    def run_conj(self, gs, st, env, depth):
        states = [st]
        for g in gs:
            nxt = []
            for s in states:
                nxt += self.run(g, s, env, depth)
                if len(nxt) > self.max_answers:
                    self.truncated = True
                    return nxt
            states = nxt
            if not states:
                break
        return states

    def eq_goal(self, a, b, st):
        s2 = self.unify(a, b, st.s)
        if s2 is None:
            return []
        st2 = self.recheck(RState(s2, st.d, st.fd, (st.ext[0] + 1, len(s2) - len(st.s))))
        return [st2] if st2 is not None else []

    def eq_goal_raw(self, a, b, st):
        """binding that is not a unification goal (does not count as an extension)"""
        s2 = self.unify(a, b, st.s)
        if s2 is None:
            return []
        return [RState(s2, st.d, st.fd, st.ext)]

    def ne_goal(self, a, b, st):
        st2 = self.recheck(RState(st.s, st.d + [[(a, b)]], st.fd, st.ext))
        return [st2] if st2 is not None else []

    def run_rel(self, name, args, st, depth):
        if depth > self.max_depth:
            self.truncated = True
            return []
        if name == 'member':
            x, l = args
            out = []
            h, t = self.fresh('h'), self.fresh('t')
            for st1 in self.eq_goal(l, ('cons', h, t), st):
                out += self.eq_goal(x, h, st1)
                out += self.run_rel('member', [x, t], st1, depth + 1)
            return out
        if name == 'append':
            l, s, ls = args
            out = []
            for st1 in self.eq_goal(l, ('nil',), st):
                out += self.eq_goal(s, ls, st1)
            a, d, res = self.fresh('a'), self.fresh('d'), self.fresh('res')
            for st1 in self.eq_goal(l, ('cons', a, d), st):
                for st2 in self.eq_goal(ls, ('cons', a, res), st1):
                    out += self.run_rel('append', [d, s, res], st2, depth + 1)
            return out
        if name == 'cons':
            a, d, p = args
            return self.eq_goal(('cons', a, d), p, st)
        if name == 'pick':
            a, b, lo, hi = args
            d = self.fresh('d')
            out = []
            for st1 in self.run_rel('member', [d, ('cons', lo, ('cons', hi, ('nil',)))], st, depth + 1):
                out += self.eq_goal(a, d, st1)
                out += self.eq_goal(b, d, st1)
            return out
        if name == 'first':
            l, f = args
            return self.eq_goal(l, ('cons', f, self.fresh('t')), st)
        if name == 'rest':
            l, r = args
            return self.eq_goal(l, ('cons', self.fresh('h'), r), st)
        if name == 'empty':
            return self.eq_goal(args[0], ('nil',), st)
        if name in ('never', 'nevero', 'spin'):
            self.infinite = True
            return []
        if name == 'always':
            self.infinite = True
            return [st]
        if name == 'probe':
            # [hook balance (must be 0), number of process_extension calls, size of the last extension]
            rec = ('cons', ('num', 0), ('cons', ('num', st.ext[0]), ('cons', ('num', st.ext[1]), ('nil',))))
            return self.eq_goal_raw(args[0], rec, st)
        if name == 'pusho':
            xx, v, o = args
            l = self.walk_star(xx, st.s)
            items, cur = [], l
            while cur[0] == 'cons':
                items.append(cur[1])
                cur = cur[2]
            if cur[0] != 'nil':
                raise NotEncodable('pusho on a non-list')
            return self.eq_goal(o, enc_list(items + [v]), st)
        if name == 'samevar':
            # the observer sees its arguments as they are (inside project: walk*-ed terms)
            u, v, o = args
            return self.eq_goal(('num', 1 if u == v else 0), o, st)
        if name == 'succ_head':
            u, v = args
            if u[0] != 'cons':
                return []
            return self.run_rel('succ', [u[1], v], st, depth)
        if name == 'succ':
            u, v = args
            if u[0] != 'num':
                return []
            n = u[1]
            return self.eq_goal(('num', (H.bv(n) + 1) if z3.is_expr(n) else n + 1), v, st)
        if name == 'member1':
            x, l = args
            out = []
            h, t = self.fresh('h'), self.fresh('t')
            for st1 in self.eq_goal(l, ('cons', h, t), st):
                out += self.eq_goal(h, x, st1)
                for st2 in self.ne_goal(h, x, st1):
                    out += self.run_rel('member1', [x, t], st2, depth + 1)
            return out
        if name == 'rember':
            x, ls, outl = args
            out = []
            for st1 in self.eq_goal(ls, ('nil',), st):
                out += self.eq_goal(outl, ('nil',), st1)
            a, d = self.fresh('a'), self.fresh('d')
            for st1 in self.eq_goal(ls, ('cons', a, d), st):
                for st2 in self.eq_goal(outl, d, st1):
                    out += self.eq_goal(a, x, st2)
            y, ys, zs = self.fresh('y'), self.fresh('ys'), self.fresh('zs')
            for st1 in self.eq_goal(ls, ('cons', y, ys), st):
                for st2 in self.eq_goal(outl, ('cons', y, zs), st1):
                    for st3 in self.ne_goal(y, x, st2):
                        out += self.run_rel('rember', [x, ys, zs], st3, depth + 1)
            return out
        if name == 'permute':
            xl, yl = args
            out = []
            for st1 in self.eq_goal(xl, ('nil',), st):
                out += self.eq_goal(yl, ('nil',), st1)
            x, xs, ys = self.fresh('x'), self.fresh('xs'), self.fresh('ys')
            for st1 in self.eq_goal(xl, ('cons', x, xs), st):
                for st2 in self.run_rel('permute', [xs, ys], st1, depth + 1):
                    out += self.run_rel('rember', [x, yl, ys], st2, depth + 1)
            return out
        if name == 'distinct':
            l = self.walk_star(args[0], st.s)
            items = []
            while l[0] == 'cons':
                items.append(l[1])
                l = l[2]
            if l[0] != 'nil':
                raise ValueError('reference: distinct on a partial list')
            states = [st]
            for i in range(len(items)):
                for j in range(i + 1, len(items)):
                    nxt = []
                    for s1 in states:
                        nxt += self.ne_goal(items[i], items[j], s1)
                    states = nxt
            return states
        raise ValueError('reference: relation ' + name)

    # ---- answers ---------------------------------------------------------------------------
    # ---- finite domains: brute-force labeling ------------------------------------------------------
    def label(self, st, q):
        """All extensions of state `st` that give every finite-domain variable a value of its
        domain(s) and satisfy every finite-domain constraint; one state per distinct value of the
        answer term (hidden variables are labelled existentially, i.e. once)."""
        doms, cons = st.fd
        if not doms and not cons:
            return [st]
        classes = {}      # representative var id -> allowed values (intersection)
        order = []
        for (t, dom) in doms:
            tw = self.walk(t, st.s)
            if tw[0] == 'var':
                if tw[1] not in classes:
                    classes[tw[1]] = set(dom)
                    order.append(tw[1])
                else:
                    classes[tw[1]] &= set(dom)
            elif tw[0] == 'num':
                ok_ = False
                for d in dom:
                    if self.num_eq(tw[1], d):
                        ok_ = True
                        break
                if not ok_:
                    return []
            else:
                return []
        out, seen = [], []
        for combo in itertools.product(*[sorted(classes[v]) for v in order]):
            s2 = dict(st.s)
            for v, n in zip(order, combo):
                s2[v] = ('num', n)
            if not all(self.fd_holds(kind, [self.walk_star(a, s2) for a in args]) for kind, args in cons if kind not in ('plusz', 'timesz')):
                continue
            st2 = self.recheck(RState(s2, st.d, st.fd, st.ext))
            if st2 is None:
                continue
            key = self.walk_star(q, s2)
            if any(self.same_ground(key, k2) for k2 in seen):
                continue
            seen.append(key)
            out.append(st2)
        return out

    def same_ground(self, a, b):
        if a[0] != b[0]:
            return False
        if a[0] == 'num':
            return self.num_eq(a[1], b[1])
        if a[0] in ('cons', 'pair'):
            return self.same_ground(a[1], b[1]) and self.same_ground(a[2], b[2])
        if a[0] == 'var':
            return a[1] == b[1]
        return a == b

    def fd_holds(self, kind, args):
        def n(t):
            if t[0] != 'num':
                raise ValueError('reference: finite-domain operand without a domain: %r' % (t,))
            return t[1]

        def cmp(op, a, b):
            if not z3.is_expr(a) and not z3.is_expr(b):
                return {'le': a <= b, 'lt': a < b, 'eq': a == b, 'ne': a != b}[op]
            za, zb = H.bv(a), H.bv(b)
            return self.ctx.branch({'le': za <= zb, 'lt': za < zb, 'eq': za == zb, 'ne': za != zb}[op], 'reference: fd ' + op)

        def arith(op, a, b):
            if not z3.is_expr(a) and not z3.is_expr(b):
                return {'+': a + b, '-': a - b, '*': a * b}[op]
            za, zb = H.bv(a), H.bv(b)
            return {'+': za + zb, '-': za - zb, '*': za * zb}[op]
        if kind == 'ltefd':
            return cmp('le', n(args[0]), n(args[1]))
        if kind == 'ltfd':
            return cmp('lt', n(args[0]), n(args[1]))
        if kind == 'diseqfd':
            return cmp('ne', n(args[0]), n(args[1]))
        if kind == 'plusfd':
            return cmp('eq', arith('+', n(args[0]), n(args[1])), n(args[2]))
        if kind == 'minusfd':
            return cmp('eq', arith('-', n(args[0]), n(args[1])), n(args[2]))
        if kind == 'timesfd':
            return cmp('eq', arith('*', n(args[0]), n(args[1])), n(args[2]))
        if kind == 'distinctfd':
            items, l = [], args[0]
            while l[0] == 'cons':
                items.append(n(l[1]))
                l = l[2]
            for i in range(len(items)):
                for j in range(i + 1, len(items)):
                    if not cmp('ne', items[i], items[j]):
                        return False
            return True
        raise ValueError('reference: fd constraint ' + kind)

    def solve_z(self, st):
        """Integer constraints u+v=w / u*v=w: determine an operand as soon as the other two are numbers
        (unique solution), fail when impossible, leave it open otherwise.  Returns a state or None."""
        zs = [(k_, a_) for k_, a_ in st.fd[1] if k_ in ('plusz', 'timesz')]
        s = st.s
        changed = True
        while changed:
            changed = False
            for kind, args in zs:
                vals = [self.walk(a, s) for a in args]
                nums = [v[1] if v[0] == 'num' else None for v in vals]
                if any(v[0] not in ('num', 'var') for v in vals):
                    return None
                known = [n is not None for n in nums]
                if all(known):
                    u, v, w = [H.bv(n) if z3.is_expr(n) else n for n in nums]
                    r = (u + v) if kind == 'plusz' else (u * v)
                    if not self.num_eq(r, w):
                        return None
                    continue
                if known.count(True) != 2:
                    continue
                i = known.index(False)
                a, b = [H.bv(n) for n in nums if n is not None]
                if kind == 'plusz':
                    sol = {0: b - a, 1: b - a, 2: a + b}[i]
                elif i == 2:
                    sol = a * b
                else:
                    f, pr = a, b
                    if self.ctx.branch(f == 0, 'reference: zero factor'):
                        if not self.ctx.branch(pr == 0, 'reference: zero product'):
                            return None
                        continue          # every integer works: stays open
                    if not self.ctx.branch(z3.SRem(pr, f) == 0, 'reference: divisible'):
                        return None
                    sol = pr / f
                s = dict(s)
                s[vals[i][1]] = ('num', z3.simplify(sol))
                changed = True
        st2 = self.recheck(RState(s, st.d, st.fd, st.ext))
        return st2

    def answers(self, prog, rust_vars=()):
        q = self.fresh('q')
        env = {'q': q}
        for v in rust_vars:
            env[v] = self.fresh(v)
        sts = self.run_conj(prog, RState(), env, 0)
        if self.has_z:
            sts = [s2 for s2 in (self.solve_z(st) for st in sts) if s2 is not None]
        if self.has_fd:
            sts = [s2 for st in sts for s2 in self.label(st, q)]
        out = []
        for st in sts:
            t = self.walk_star(q, st.s)
            cs = [[(self.walk_star(k, st.s), self.walk_star(v, st.s)) for k, v in c] for c in st.d]
            out.append((t, cs))
        return out


# ==============================================================================================
# Engine answers -> (term, constraints)
# ==============================================================================================

def engine_answers(m, result, space=None):
    """`result`: value of a template function (Vec<Vec<LResult>>) -> [(term view, [[(k view, v view)..]..], others)]"""
    sp = space or TM.TermSpace.__new__(TM.TermSpace)
    if space is None:
        sp.m = m
        sp.var_ids = {}
    out = []
    rows = val(m, result)
    for row in rows.fields:
        rv = val(m, row)
        if isinstance(rv, Adt) and rv.ty == 'LTerm':
            out.append((conv(sp.view(rv)), [], []))      # plain walk*(q) of a manually driven solver
            continue
        lres = val(m, rv.fields[0])
        term = sp.view(lres.fields[0])
        cs, others = store_constraints(m, sp, lres.fields[1])
        out.append((conv(term), [[(conv(k), conv(v)) for k, v in c] for c in cs], others))
    return out


def store_constraints(m, sp, cstore):
    store = val(m, cstore)
    while isinstance(store, Adt) and store.ty in ('Rc', 'Box'):
        store = val(m, store.fields[0])
    hs = val(m, store.fields[0])
    cs, others = [], []
    for rc in hs.fields:
        c = val(m, rc)
        while isinstance(c, Adt) and c.ty in ('Rc', 'Box'):
            c = val(m, c.fields[0])
        if c.ty == 'DisequalityConstraint':
            smap = val(m, c.fields[0])
            hm = val(m, smap.fields[0])
            cs.append([(sp.view(e.fields[0]), sp.view(e.fields[1])) for e in hm.fields])
        else:
            others.append(c.ty)
    return cs, others


def conv(v):
    """TermSpace view -> reference term shape (variables keep (uid, name))."""
    k = v[0]
    if k == 'num':
        return ('num', v[1])
    if k == 'var':
        return ('var', 'e%s' % v[1], v[2])
    if k in ('cons', 'pair'):
        return (k, conv(v[1]), conv(v[2]))
    if k in ('nil', 'bool', 'str'):
        return v
    if k == 'lazy':
        raise NotEncodable('un-inspected lazy term in an answer')
    raise NotEncodable('answer term kind ' + k)


# ==============================================================================================
# Comparison
# ==============================================================================================

def match_terms(ctx, a, b, bij, rbij):
    """Structural equality of engine term `a` and reference term `b` up to a variable bijection;
    number leaves must be equal under the path condition."""
    if a[0] == 'var' or b[0] == 'var':
        if a[0] != 'var' or b[0] != 'var':
            return False
        if a[1] in bij:
            return bij[a[1]] == b[1]
        if b[1] in rbij:
            return False
        bij[a[1]] = b[1]
        rbij[b[1]] = a[1]
        return True
    if a[0] != b[0]:
        return False
    if a[0] == 'num':
        x, y = a[1], b[1]
        if not z3.is_expr(x) and not z3.is_expr(y):
            return x == y
        r, _ = ctx.query(H.bv(x) != H.bv(y))
        if r == z3.unknown:
            raise NotEncodable('solver unknown while comparing answers')
        return r == z3.unsat
    if a[0] in ('bool', 'str'):
        return a[1] == b[1]
    if a[0] == 'nil':
        return True
    if a[0] in ('cons', 'pair'):
        return match_terms(ctx, a[1], b[1], bij, rbij) and match_terms(ctx, a[2], b[2], bij, rbij)
    return False


def ground(t, names):
    Tt = TM.T()
    k = t[0]
    if k == 'num':
        return Tt.num(H.bv(t[1]))
    if k == 'bool':
        return Tt.boolean(z3.BoolVal(bool(t[1])))
    if k == 'str':
        return Tt.str(z3.IntVal(TM.str_id(t[1])))
    if k == 'nil':
        return Tt.nil
    if k == 'cons':
        return Tt.cons(ground(t[1], names), ground(t[2], names))
    if k == 'pair':
        return Tt.pair(ground(t[1], names), ground(t[2], names))
    if k == 'var':
        key = names(t[1])
        return z3.Const('sg_%s' % key, Tt)
    raise NotEncodable('ground ' + k)


def constraints_formula(cs, names):
    return z3.And(*[z3.Or(*[ground(k, names) != ground(v, names) for k, v in c]) for c in cs]) if cs else z3.BoolVal(True)


def vars_of(t, acc):
    if t[0] == 'var':
        acc.add(t[1])
    elif t[0] in ('cons', 'pair'):
        vars_of(t[1], acc)
        vars_of(t[2], acc)
    return acc


def same_answer(ctx, ea, fa):
    """Engine answer `ea` = (term, constraints, others) vs reference answer `fa` = (term, constraints)."""
    bij, rbij = {}, {}
    if not match_terms(ctx, ea[0], fa[0], bij, rbij):
        return False
    # constraints: logical equivalence over all ground instances; variables of the answer term are
    # identified through the bijection, any other variable is private to its side
    def en(uid):
        return 'x_' + bij[uid] if uid in bij else 'eng_' + str(uid)

    def rn(uid):
        return 'x_' + uid if uid in rbij else 'ref_' + str(uid)
    visible_e = vars_of(ea[0], set())
    visible_f = vars_of(fa[0], set())
    ecs = [c for c in ea[1]]
    fcs = [c for c in fa[1] if all(vars_of(k, set()) | vars_of(v, set()) <= visible_f for k, v in c)]
    de = constraints_formula(ecs, en)
    df = constraints_formula(fcs, rn)
    r1, _ = ctx.query(de, z3.Not(df), fresh=True)
    r2, _ = ctx.query(df, z3.Not(de), fresh=True)
    if z3.unknown in (r1, r2):
        raise NotEncodable('solver unknown while comparing constraints')
    return r1 == z3.unsat and r2 == z3.unsat


def compare(ctx, eng, ref, mode):
    """mode: 'sequence' | 'multiset' | 'subset' (every engine answer is a reference answer).
    Returns None if they agree, else a description."""
    if mode == 'sequence':
        if len(eng) != len(ref):
            return 'engine returns %d answers, reference %d' % (len(eng), len(ref))
        for i, (e, f) in enumerate(zip(eng, ref)):
            if not same_answer(ctx, e, f):
                return 'answer %d differs' % i
        return None
    if mode == 'covers':
        # every reference answer must occur among the engine's answers (a prefix of a possibly infinite stream),
        # and every engine answer must be a reference answer
        for j, f in enumerate(ref):
            if not any(same_answer(ctx, e, f) for e in eng):
                return 'reference answer %d does not show up among the first %d answers' % (j, len(eng))
        for i, e in enumerate(eng):
            if not any(same_answer(ctx, e, f) for f in ref):
                return 'engine answer %d is not a reference answer' % i
        return None
    used = [False] * len(ref)
    for i, e in enumerate(eng):
        hit = None
        for j, f in enumerate(ref):
            if not used[j] and same_answer(ctx, e, f):
                hit = j
                break
        if hit is None:
            return 'engine answer %d is not a reference answer%s' % (i, '' if mode == 'subset' else ' (or is returned too often)')
        if mode != 'subset':
            used[hit] = True
    if mode == 'multiset' and not all(used):
        return 'reference answer %d is missing from the engine\'s answers' % used.index(False)
    return None


def show_term(t, model=None):
    k = t[0]
    if k == 'num':
        x = t[1]
        if z3.is_expr(x):
            return str(H.model_int(model, x)) if model is not None else str(x)
        return str(x)
    if k == 'var':
        return '_.0'
    if k == 'nil':
        return '[]'
    if k == 'cons':
        items, cur = [], t
        while cur[0] == 'cons':
            items.append(show_term(cur[1], model))
            cur = cur[2]
        return '[%s]' % ', '.join(items) if cur[0] == 'nil' else '[%s | %s]' % (', '.join(items), show_term(cur, model))
    if k == 'pair':
        # LTerm's Display prints compound objects with their Debug representation
        return debug_term(t, model)
    if k == 'bool':
        return 'true' if t[1] else 'false'
    if k == 'str':
        return '"%s"' % t[1]
    return '?'


def debug_term(t, model=None):
    """`{:?}` of an LTerm (hand-written Debug of LTerm and LValue; Debug of the compound objects)."""
    k = t[0]
    if k == 'num':
        x = t[1]
        if z3.is_expr(x):
            x = H.model_int(model, x) if model is not None else x
        return str(x)
    if k == 'bool':
        return 'true' if t[1] else 'false'
    if k == 'str':
        return '"%s"' % t[1]
    if k == 'nil':
        return 'Empty'
    if k == 'cons':
        return '(%s, %s)' % (debug_term(t[1], model), debug_term(t[2], model))
    if k == 'pair':
        d = dec_cmp(t)
        if d is not None:
            name, fields = d
            if name == 'None':
                return 'None'
            if name in STRUCTS and STRUCTS[name][0] == 'named':
                return '%s { %s }' % (name, ', '.join('%s: %s' % (fn, debug_term(f, model)) for fn, f in zip(STRUCTS[name][1], fields)))
            return '%s(%s)' % (name, ', '.join(debug_term(f, model) for f in fields))
        return '(%s, %s)' % (debug_term(t[1], model), debug_term(t[2], model))
    if k == 'var':
        return 'Var(VarID(0), "_")'
    return '?'


def show_answer(a, model=None):
    s = show_term(a[0], model)
    if a[1]:
        s += ' where ' + ' & '.join('(' + ' | '.join('%s != %s' % (show_term(k, model), show_term(v, model)) for k, v in c) + ')' for c in a[1])
    return s
