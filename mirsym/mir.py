"""Parser for rustc's `-Zunpretty=mir` text dump (nightly 1.97) into a light AST.

Only the syntax that actually occurs in the functions mirsym executes is understood; anything
else parses to ('unsupported', text) and makes the executor stop on the path that reaches it
(reported as *not encodable*, never as a verdict).

AST (tuples):
  place   : ('local', n) | ('deref', p) | ('field', p, idx, ty) | ('downcast', p, variant)
            | ('index', p, local_n) | ('cindex', p, i, n, from_end) | ('subslice', p, a, b, from_end)
  operand : ('copy', place) | ('move', place) | ('const', kind, value, ty)
  rvalue  : ('use', operand) | ('ref', mut, place) | ('rawptr', mut, place)
            | ('binop', op, a, b) | ('unop', op, a) | ('discr', place)
            | ('agg', kind, name, variant, [operands], [fieldnames]) | ('cast', operand, ty, kind)
            | ('len', place) | ('repeat', operand, n) | ('unsupported', text)
  stmt    : ('assign', place, rvalue) | ('setdiscr', place, idx) | ('nop',)
  term    : ('goto', bb) | ('switch', operand, [(val, bb)], otherwise_bb) | ('return',)
            | ('call', dest_place, callee_text, [operands], ret_bb or None)
            | ('drop', place, bb) | ('assert', operand, expected_bool, msg, bb)
            | ('unreachable',) | ('resume',)
"""
import re

BINOPS = {'Add', 'Sub', 'Mul', 'Div', 'Rem', 'BitXor', 'BitAnd', 'BitOr', 'Shl', 'Shr', 'Eq',
          'Lt', 'Le', 'Ne', 'Ge', 'Gt', 'Cmp', 'Offset', 'AddWithOverflow', 'SubWithOverflow',
          'MulWithOverflow', 'AddUnchecked', 'SubUnchecked', 'MulUnchecked', 'ShlUnchecked',
          'ShrUnchecked'}
UNOPS = {'Not', 'Neg', 'PtrMetadata'}


class Function:
    __slots__ = ('name', 'nargs', 'locals', 'blocks', 'ret_ty', 'arg_tys', 'src')

    def __init__(self, name):
        self.name = name
        self.nargs = 0
        self.locals = {}
        self.blocks = {}
        self.ret_ty = ''
        self.arg_tys = []


def split_top(s, sep=','):
    """Split `s` at top-level separators (not inside brackets / strings)."""
    out, depth, cur, i, n = [], 0, [], 0, len(s)
    instr = False
    while i < n:
        c = s[i]
        if instr:
            cur.append(c)
            if c == '\\':
                i += 1
                if i < n:
                    cur.append(s[i])
            elif c == '"':
                instr = False
        elif c == '"':
            instr = True
            cur.append(c)
        elif c in '([{<':
            # '<' only counts as a bracket when it looks like a generic list
            if c == '<' and (i + 1 < n and s[i + 1] in ' =') and not (i > 0 and s[i - 1] == ' ' and False):
                cur.append(c)
            else:
                depth += 1
                cur.append(c)
        elif c in ')]}>':
            if c == '>' and (i > 0 and s[i - 1] in '-=' or depth == 0):
                cur.append(c)
            else:
                depth -= 1
                cur.append(c)
        elif c == sep and depth == 0:
            out.append(''.join(cur).strip())
            cur = []
        else:
            cur.append(c)
        i += 1
    last = ''.join(cur).strip()
    if last or out:
        out.append(last)
    return out


def match_paren(s, i):
    """s[i] is an opening bracket; return index of its matching closer."""
    open_c = s[i]
    close_c = {'(': ')', '[': ']', '{': '}', '<': '>'}[open_c]
    depth = 0
    instr = False
    j = i
    while j < len(s):
        c = s[j]
        if instr:
            if c == '\\':
                j += 1
            elif c == '"':
                instr = False
        elif c == '"':
            instr = True
        elif c == open_c:
            depth += 1
        elif c == close_c:
            if not (c == '>' and j > 0 and s[j - 1] in '-='):
                depth -= 1
                if depth == 0:
                    return j
        j += 1
    raise ValueError('unbalanced: ' + s)


def parse_place(s):
    s = s.strip()
    m = re.fullmatch(r'_(\d+)', s)
    if m:
        return ('local', int(m.group(1)))
    if s.startswith('(') and s.endswith(')') and match_paren(s, 0) == len(s) - 1:
        inner = s[1:-1].strip()
        if inner.startswith('*'):
            return ('deref', parse_place(inner[1:]))
        # (P as Variant)
        m = re.fullmatch(r'(.*) as (\w+)', inner)
        if m and not re.search(r':\s', _strip_nested(inner)):
            return ('downcast', parse_place(m.group(1)), m.group(2))
        # (P.f: T)
        top = _split_field(inner)
        if top:
            base, fld, ty = top
            return ('field', parse_place(base), int(fld), ty.strip())
        return parse_place(inner)
    # P[_i] / P[i of n] / P[a..b]
    if s.endswith(']'):
        i = _open_of_last_bracket(s)
        base, idx = s[:i], s[i + 1:-1]
        m = re.fullmatch(r'_(\d+)', idx)
        if m:
            return ('index', parse_place(base), int(m.group(1)))
        m = re.fullmatch(r'(-?)(\d+) of (\d+)', idx)
        if m:
            return ('cindex', parse_place(base), int(m.group(2)), int(m.group(3)), m.group(1) == '-')
        m = re.fullmatch(r'(\d+)\.\.(\d*)', idx) or re.fullmatch(r'(\d+):-(\d+)', idx)
        if m:
            return ('subslice', parse_place(base), int(m.group(1)), m.group(2), ':' in idx)
    if s.startswith('*'):
        return ('deref', parse_place(s[1:]))
    raise ValueError('place? ' + s)


def _strip_nested(s):
    out, depth = [], 0
    for c in s:
        if c in '([{':
            depth += 1
        elif c in ')]}':
            depth -= 1
        elif depth == 0:
            out.append(c)
    return ''.join(out)


def _open_of_last_bracket(s):
    depth = 0
    for i in range(len(s) - 1, -1, -1):
        if s[i] == ']':
            depth += 1
        elif s[i] == '[':
            depth -= 1
            if depth == 0:
                return i
    raise ValueError(s)


def _split_field(inner):
    """`BASE.N: TYPE` where BASE may itself be parenthesised."""
    # find top-level ': '
    depth = 0
    for i, c in enumerate(inner):
        if c in '([{':
            depth += 1
        elif c in ')]}':
            depth -= 1
        elif c == ':' and depth == 0 and inner[i + 1:i + 2] == ' ' and inner[i - 1] != ':':
            left, ty = inner[:i], inner[i + 2:]
            m = re.fullmatch(r'(.*)\.(\d+)', left, re.S)
            if m:
                return m.group(1), m.group(2), ty
            return None
    return None


def parse_const(s):
    s = s.strip()
    m = re.fullmatch(r'(-?\d+)_(isize|usize|i8|i16|i32|i64|i128|u8|u16|u32|u64|u128)', s)
    if m:
        return ('const', 'int', int(m.group(1)), m.group(2))
    m = re.fullmatch(r'(isize|usize|i8|i16|i32|i64|i128|u8|u16|u32|u64|u128)::(MAX|MIN)', s)
    if m:
        return ('const', 'intlimit', m.group(2), m.group(1))
    if s in ('true', 'false'):
        return ('const', 'bool', s == 'true', 'bool')
    if s == '()':
        return ('const', 'unit', None, '()')
    if s.startswith('"'):
        return ('const', 'str', _unescape(s[1:-1]), '&str')
    if s.startswith("'") and s.endswith("'"):
        body = _unescape(s[1:-1])
        return ('const', 'char', body, 'char')
    if s.startswith('b"'):
        return ('const', 'bytes', s, '&[u8]')
    m = re.fullmatch(r'(-?[\d.]+(?:[eE][-+]?\d+)?)(f32|f64)', s)
    if m:
        return ('const', 'float', float(m.group(1)), m.group(2))
    # function items, unit structs/variants, promoted constants, ZSTs
    return ('const', 'item', s, '')


def _unescape(s):
    try:
        return bytes(s, 'utf-8').decode('unicode_escape').encode('latin-1').decode('utf-8')
    except Exception:
        return s


def parse_operand(s):
    s = s.strip()
    if s.startswith('copy '):
        return ('copy', parse_place(s[5:]))
    if s.startswith('move '):
        return ('move', parse_place(s[5:]))
    if s.startswith('const '):
        return parse_const(s[6:])
    if re.match(r'^[A-Za-z_<][\w:<>, &\[\]()\'{}@./-]*$', s) and '::' in s:
        # a function item passed by value (`unwrap_or_else(.., Stream::<U, E>::empty)`) is printed without `const`
        return ('const', 'item', s, '')
    raise ValueError('operand? ' + s)


def parse_rvalue(s):
    s = s.strip()
    try:
        if s.startswith('no_retag copy ') and _top_level_as(s) < 0:
            # deref temporary of a Box: the Box pointer is copied, the boxed value is NOT (see interp: boxalias)
            return ('use_alias', parse_operand(s[9:]))
        if s.startswith('no_retag '):
            s = s[9:]
        if s.startswith(('copy ', 'move ', 'const ')):
            # cast?
            k = _top_level_as(s)
            if k >= 0:
                m = re.fullmatch(r'(.*) \((\w+(?:\(.*\))?)\)', s[k + 4:], re.S)
                if m:
                    return ('cast', parse_operand(s[:k]), m.group(1), m.group(2))
            return ('use', parse_operand(s))
        if s.startswith('&raw const '):
            return ('rawptr', False, parse_place(s[11:]))
        if s.startswith('&raw mut '):
            return ('rawptr', True, parse_place(s[9:]))
        if s.startswith('&mut '):
            return ('ref', True, parse_place(s[5:]))
        if s.startswith('&fake shallow '):
            return ('ref', False, parse_place(s[14:]))
        if s.startswith('&'):
            return ('ref', False, parse_place(s[1:]))
        m = re.match(r'(\w+)\(', s)
        if m and s.endswith(')') and match_paren(s, m.end() - 1) == len(s) - 1:
            op = m.group(1)
            args = split_top(s[m.end():-1])
            if op in BINOPS and len(args) == 2:
                return ('binop', op, parse_operand(args[0]), parse_operand(args[1]))
            if op in UNOPS and len(args) == 1:
                return ('unop', op, parse_operand(args[0]))
            if op == 'discriminant':
                return ('discr', parse_place(args[0]))
            if op == 'Len':
                return ('len', parse_place(args[0]))
        if s.startswith('(') and match_paren(s, 0) == len(s) - 1:
            inner = s[1:-1].strip()
            ops = [parse_operand(x) for x in split_top(inner) if x != '']
            return ('agg', 'tuple', '(tuple)', 0, ops, None)
        if s.startswith('['):
            j = match_paren(s, 0)
            if j == len(s) - 1:
                inner = s[1:-1]
                parts = split_top(inner, ';')
                if len(parts) == 2:
                    return ('repeat', parse_operand(parts[0]), parts[1].strip())
                ops = [parse_operand(x) for x in split_top(inner) if x != '']
                return ('agg', 'array', '[array]', 0, ops, None)
        if s.startswith('{closure@') or s.startswith('{coroutine@'):
            j = match_paren(s, 0)
            name = s[:j + 1]
            rest = s[j + 1:].strip()
            ops, names = [], []
            if rest.startswith('{'):
                for f in split_top(rest[1:-1]):
                    if not f:
                        continue
                    k, v = f.split(':', 1)
                    names.append(k.strip())
                    ops.append(parse_operand(v))
            return ('agg', 'closure', name, 0, ops, names)
        # Adt aggregates:  Path::<..>::Variant(args) | Path::<..> { f: v } | Path::Variant
        m = re.match(r'^([A-Za-z_][\w:]*?)(::<.*>)?(?:::(\w+))?\s*(\(|\{|$)', s)
        if m and _is_adt_head(s):
            return parse_adt_agg(s)
    except ValueError:
        pass
    return ('unsupported', s)


def _top_level_as(s):
    depth = 0
    for i, c in enumerate(s):
        if c in '([{':
            depth += 1
        elif c in ')]}':
            depth -= 1
        elif depth == 0 and s.startswith(' as ', i):
            return i
    return -1


def _balanced(s):
    d = 0
    for c in s:
        if c in '([{':
            d += 1
        elif c in ')]}':
            d -= 1
            if d < 0:
                return False
    return d == 0


def _is_adt_head(s):
    return re.match(r'^[A-Za-z_]', s) is not None


def parse_adt_agg(s):
    """`Option::<T>::Some(move _1)`, `LTerm::<U, E> { inner: move _3 }`, `Stream::<U,E>::Empty`,
    `LazyStream::<U, E>(move _3)`."""
    # strip generic args at top level, collecting path segments
    segs, i, n, cur = [], 0, len(s), []
    args_txt, brace_txt = None, None
    while i < n:
        c = s[i]
        if c == '<':
            j = match_paren(s, i)
            i = j + 1
            continue
        if c == ':' and s[i:i + 2] == '::':
            if cur:
                segs.append(''.join(cur))
                cur = []
            i += 2
            continue
        if c == '(':
            j = match_paren(s, i)
            args_txt = s[i + 1:j]
            i = j + 1
            break
        if c == '{':
            j = match_paren(s, i)
            brace_txt = s[i + 1:j]
            i = j + 1
            break
        if c == ' ':
            i += 1
            continue
        cur.append(c)
        i += 1
    if cur:
        segs.append(''.join(cur))
    if s[i:].strip():
        raise ValueError('trailing: ' + s)
    ops, names = [], None
    if args_txt is not None:
        ops = [parse_operand(x) for x in split_top(args_txt) if x != '']
    elif brace_txt is not None:
        names = []
        for f in split_top(brace_txt):
            if not f:
                continue
            k, v = f.split(':', 1)
            names.append(k.strip())
            ops.append(parse_operand(v))
    return ('agg', 'adt', segs, None, ops, names)


TERM_CALL = re.compile(r'^(.*?) = (.*)\((.*)\) -> (?:\[return: (bb\d+)(?:, unwind[^\]]*)?\]|unwind .*)$', re.S)


def parse_statement(line):
    s = line.strip().rstrip(';')
    if s.startswith(('StorageLive', 'StorageDead', 'nop', 'FakeRead', 'PlaceMention', 'Retag',
                     'AscribeUserType', 'Coverage', 'ConstEvalCounter', 'BackwardIncompatibleDropHint')):
        return ('nop',)
    if s.startswith('Deinit('):
        return ('nop',)
    if s.startswith('assume('):
        return ('nop',)
    m = re.fullmatch(r'discriminant\((.*)\) = (\d+)', s)
    if m:
        return ('setdiscr', parse_place(m.group(1)), int(m.group(2)))
    # terminators
    if s == 'return':
        return ('return',)
    if s in ('resume', 'unreachable'):
        return (s,)
    if s.startswith('unwind '):
        return ('resume',)
    m = re.fullmatch(r'goto -> (bb\d+)', s)
    if m:
        return ('goto', m.group(1))
    m = re.fullmatch(r'falseEdge -> \[real: (bb\d+), imaginary: bb\d+\]', s)
    if m:
        return ('goto', m.group(1))
    m = re.fullmatch(r'falseUnwind -> \[real: (bb\d+).*\]', s)
    if m:
        return ('goto', m.group(1))
    m = re.fullmatch(r'switchInt\((.*)\) -> \[(.*)\]', s, re.S)
    if m:
        targets, other = [], None
        for t in m.group(2).split(','):
            k, b = t.strip().split(': ')
            if k == 'otherwise':
                other = b
            else:
                targets.append((int(k), b))
        return ('switch', parse_operand(m.group(1)), targets, other)
    m = re.fullmatch(r'drop\((.*)\) -> \[return: (bb\d+).*\]', s)
    if m:
        return ('drop', parse_place(m.group(1)), m.group(2))
    m = re.fullmatch(r'assert\((!?)(.*?), (".*"|[A-Za-z].*?)(?:, .*)?\) -> \[success: (bb\d+).*\]', s, re.S)
    if m:
        return ('assert', parse_operand(m.group(2)), m.group(1) != '!', m.group(3), m.group(4))
    if ' = ' in s and re.search(r' -> (\[return: bb\d+[^\[\]]*\]|unwind [a-z()]+|bb\d+)$', s):
        # call terminator.  find '= callee(args) -> ...'
        eq = s.index(' = ')
        dest = s[:eq]
        rest = s[eq + 3:]
        arrow = rest.rindex(' -> ')
        callpart, tail = rest[:arrow], rest[arrow + 4:]
        if callpart.endswith(')'):
            # find the opening paren of the argument list
            j = _open_paren_of_last(callpart)
            callee = callpart[:j].strip()
            args = [parse_operand(a) for a in split_top(callpart[j + 1:-1]) if a != '']
            m2 = re.match(r'\[return: (bb\d+)', tail)
            ret = m2.group(1) if m2 else None
            return ('call', parse_place(dest), callee, args, ret)
    m = re.fullmatch(r'(.*?) = (.*)', s, re.S)
    if m:
        try:
            dest = parse_place(m.group(1))
        except ValueError:
            return ('unsupported', s)
        return ('assign', dest, parse_rvalue(m.group(2)))
    return ('unsupported', s)


def _open_paren_of_last(s):
    depth = 0
    instr = False
    for i in range(len(s) - 1, -1, -1):
        c = s[i]
        if c == '"' and (i == 0 or s[i - 1] != '\\'):
            instr = not instr
        if instr:
            continue
        if c == ')':
            depth += 1
        elif c == '(':
            depth -= 1
            if depth == 0:
                return i
    raise ValueError(s)


FN_HEAD = re.compile(r'^fn (.*?)\((.*)\) -> (.*) \{$')


def parse_dump(text):
    """Return {name: Function} for every `fn` item in the dump (lazily parsed bodies)."""
    fns = {}
    lines = text.split('\n')
    i, n = 0, len(lines)
    while i < n:
        l = lines[i]
        if l.startswith('const ') and l.endswith('= {') and 'promoted[' in l:
            j = i
            while not lines[j].startswith('}'):
                j += 1
            name = l[len('const '):l.index(']: ') + 1]
            f = Function(name)
            f.src = lines[i:j + 1]
            f.ret_ty = l[l.index(']: ') + 3:-4]
            fns[name] = f
            i = j + 1
            continue
        if l.startswith('fn '):
            j = i
            while not lines[j].startswith('}'):
                j += 1
            body = lines[i:j + 1]
            head = l
            m = FN_HEAD.match(head)
            if m:
                name = m.group(1)
                f = Function(name)
                f.src = body
                f.ret_ty = m.group(3)
                args = split_top(m.group(2))
                f.nargs = len([a for a in args if a])
                f.arg_tys = [a.split(':', 1)[1].strip() for a in args if a]
                fns[name] = f
            i = j + 1
        else:
            i += 1
    return fns


def parse_body(f):
    """Parse locals and blocks of a Function (idempotent)."""
    if f.blocks:
        return f
    cur = None
    pending = None
    for idx, a in enumerate(f.arg_tys):
        f.locals[idx + 1] = a
    for raw in f.src[1:]:
        l = raw.strip()
        if not l or l.startswith(('debug ', 'scope ', '//', '}')):
            if l == '}' and cur is not None and raw.startswith('    }'):
                cur = None
            continue
        m = re.match(r'let (?:mut )?_(\d+): (.*);$', l)
        if m and cur is None:
            f.locals[int(m.group(1))] = m.group(2)
            continue
        m = re.match(r'(bb\d+)(?: \(cleanup\))?: \{$', l)
        if m:
            cur = m.group(1)
            f.blocks[cur] = []
            pending = None
            continue
        if cur is None:
            continue
        # statements may span several lines (rare); join until ';' or terminator end
        if pending is not None:
            l = pending + ' ' + l
            pending = None
        if not l.endswith(';'):
            pending = l
            continue
        f.blocks[cur].append(parse_statement(l))
    return f
