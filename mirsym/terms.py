"""Symbolic logic terms for mirsym scenarios.

* `TermSpace`: lazily initialised symbolic `LTerm` inputs (bounded depth, fixed variable pool,
  symbolic number leaves).  A term's constructor is chosen only when the executed code inspects
  it (one fork per inspected node).
* Oracle side: z3 algebraic datatype `T` of *ground* terms and `ground(view, sigma)` which
  applies a symbolic ground substitution (one `T` constant per pool variable) to a term view.
  Un-inspected sub-terms become unconstrained `T` constants (they stand for "the ground term
  this constant denotes").
"""
import z3

from values import Adt, Cell, Ref, Lazy, NotEncodable
from models import val
import harness as H

_T = None


def T():
    global _T
    if _T is None:
        d = z3.Datatype('T')
        d.declare('num', ('n', z3.BitVecSort(64)))
        d.declare('boolean', ('b', z3.BoolSort()))
        d.declare('chr', ('c', z3.BitVecSort(32)))
        d.declare('str', ('s', z3.IntSort()))
        d.declare('nil')
        d.declare('cons', ('hd', d), ('tl', d))
        d.declare('pair', ('fst', d), ('snd', d))
        d.declare('comp', ('tag', z3.IntSort()), ('args', d))       # other compounds: tag + argument list
        _T = d.create()
    return _T


def enc_list(items):
    out = ('nil',)
    for x in reversed(items):
        out = ('cons', x, out)
    return out


def enc_cmp(name, fields):
    """Reference / oracle encoding of a compound struct value: the tagged-list twin of the property
    (a pair so that it never unifies with a list or an atom, the tag so that different types never unify)."""
    return ('pair', ('str', '#' + name), enc_list(list(fields)))


def dec_cmp(t):
    """(name, [fields]) if `t` encodes a compound struct value, else None"""
    if t[0] == 'pair' and t[1][0] == 'str' and isinstance(t[1][1], str) and t[1][1].startswith('#'):
        fields, cur = [], t[2]
        while cur[0] == 'cons':
            fields.append(cur[1])
            cur = cur[2]
        if cur[0] == 'nil':
            return t[1][1][1:], fields
    return None



STR_IDS = {}


def str_id(s):
    return STR_IDS.setdefault(s, len(STR_IDS))


class TermSpace(object):
    """Pool of variables + lazily symbolic terms over it."""

    def __init__(self, m, names=('x', 'y', 'z'), atoms=('num', 'nil'), compounds=('cons',), anys=0):
        self.m = m
        self.names = list(names)
        self.atoms = atoms
        self.compounds = compounds
        self.pool = {n: H.t_var(m, n) for n in names}
        self.any_pool = [H.t_any(m) for _ in range(anys)]
        self.var_ids = {}
        for n, t in self.pool.items():
            v = H.view(m, t)
            self.var_ids[v[1]] = n
        for i, t in enumerate(self.any_pool):
            v = H.view(m, t)
            self.var_ids[v[1]] = '_%d' % i
        self.lazy_terms = {}

    # -- lazily symbolic term -------------------------------------------------------------
    def fresh(self, depth, label='t'):
        ctx = self.m.ctx
        lid = ctx.fresh('L' + label)
        lz = Lazy('LTermInner', lid, _Spec(self, depth))
        return Adt('LTerm', 0, (Adt('Rc', 0, (Ref(Cell(lz)),), ctx.new_tag()),))

    def alternatives(self, ctx, lz, depth):
        m = self.m
        alts = []
        en = m.p.enums['LTermInner']
        lv = m.p.enums['LValue']
        if 'num' in self.atoms:
            def b_num(ctx, lz):
                n = ctx.fresh_bv('num')
                return Adt('LTermInner', en.index('Val'), (Adt('LValue', lv.index('Number'), (n,)),))
            alts.append((True, b_num))
        if 'bool' in self.atoms:
            def b_bool(ctx, lz):
                b = ctx.fresh_bool('bool')
                return Adt('LTermInner', en.index('Val'), (Adt('LValue', lv.index('Bool'), (b,)),))
            alts.append((True, b_bool))
        for s in [a[4:] for a in self.atoms if a.startswith('str:')]:
            def b_str(ctx, lz, s=s):
                return Adt('LTermInner', en.index('Val'), (Adt('LValue', lv.index('String'), (Adt('String', 0, (s,)),)),))
            alts.append((True, b_str))
        if 'nil' in self.atoms:
            alts.append((True, lambda ctx, lz: Adt('LTermInner', en.index('Empty'), ())))
        for n in self.names:
            def b_var(ctx, lz, n=n):
                return H.inner(m, self.pool[n])
            alts.append((True, b_var))
        for t in self.any_pool:
            def b_any(ctx, lz, t=t):
                return H.inner(m, t)
            alts.append((True, b_any))
        if depth > 0:
            if 'cons' in self.compounds:
                def b_cons(ctx, lz):
                    return Adt('LTermInner', en.index('Cons'), (self.fresh(depth - 1, 'h'), self.fresh(depth - 1, 't')))
                alts.append((True, b_cons))
            if 'pair' in self.compounds:
                def b_pair(ctx, lz):
                    obj = Adt('(tuple)', 0, (self.fresh(depth - 1, 'a'), self.fresh(depth - 1, 'b')))
                    return Adt('LTermInner', en.index('Compound'), (Adt('Rc', 0, (Ref(Cell(obj)),), ctx.new_tag()),))
                alts.append((True, b_pair))
        return alts

    # -- oracle side -----------------------------------------------------------------------
    def view(self, t):
        """Like harness.view but never forces an un-inspected lazy sub-term."""
        m = self.m
        v = t
        # peel references / LTerm / Rc without resolving lazies
        for _ in range(8):
            if isinstance(v, Ref):
                from values import load
                v = load(v, None)
                continue
            if isinstance(v, Lazy):
                got = m.ctx.lazy.get(v.id)
                if got is None:
                    return ('lazy', v.id)
                v = got
                continue
            if isinstance(v, Adt) and v.ty in ('LTerm', 'Rc', 'Box') and len(v.fields) == 1:
                v = v.fields[0]
                continue
            break
        if not isinstance(v, Adt) or v.ty != 'LTermInner':
            raise NotEncodable('not a term: %r' % (v,))
        k = m.p.enums['LTermInner'][v.var]
        if k == 'Val':
            lvv = v.fields[0]
            lk = m.p.enums['LValue'][lvv.var]
            x = lvv.fields[0]
            if lk == 'String' and isinstance(x, Adt):
                x = x.fields[0]
            return ({'Number': 'num', 'Bool': 'bool', 'Char': 'char', 'String': 'str'}[lk], x)
        if k == 'Var':
            vid = v.fields[0]
            if isinstance(vid, Adt):
                vid = vid.fields[0]
            return ('var', vid, v.fields[1])
        if k == 'Empty':
            return ('nil',)
        if k == 'Cons':
            return ('cons', self.view(v.fields[0]), self.view(v.fields[1]))
        if k == 'Compound':
            obj = v.fields[0]
            while isinstance(obj, Ref) or (isinstance(obj, Adt) and obj.ty in ('Rc', 'Box')):
                if isinstance(obj, Ref):
                    from values import load
                    obj = load(obj, None)
                else:
                    obj = obj.fields[0]
            if isinstance(obj, Adt) and obj.ty == '(tuple)':
                return ('pair', self.view(obj.fields[0]), self.view(obj.fields[1]))
            if isinstance(obj, Adt) and obj.ty.startswith('_Inner'):
                # object generated by #[compound] for `struct Name(..)`: encoded as the tagged-list twin
                return enc_cmp(obj.ty[len('_Inner'):], [self.field_view(f) for f in obj.fields])
            return ('comp', obj.ty, [self.view(f) if _is_term(f) else ('opaque', f) for f in obj.fields])
        raise NotEncodable('term kind ' + k)

    def field_view(self, f):
        """field of a #[compound] object: LTerm | typed wrapper struct { inner: LTerm } | Option<wrapper>"""
        from values import load
        while isinstance(f, Ref):
            f = load(f, None)
        if isinstance(f, Adt) and f.ty == 'LTerm':
            return self.view(f)
        if isinstance(f, Adt) and f.ty == 'Option':
            return enc_cmp('None', []) if f.var == 0 else enc_cmp('Some', [self.field_view(f.fields[0])])
        if isinstance(f, Adt) and len(f.fields) == 1:
            return self.field_view(f.fields[0])
        raise NotEncodable('compound field %r' % (f,))

    def name_of(self, vid):
        return self.var_ids.get(vid)


def _is_term(f):
    return isinstance(f, Adt) and f.ty == 'LTerm'


class _Spec(object):
    def __init__(self, space, depth):
        self.space = space
        self.depth = depth

    def alternatives(self, ctx, lz):
        return self.space.alternatives(ctx, lz, self.depth)


class Sigma(object):
    """A symbolic ground substitution: one T constant per variable (by name), plus one per
    un-inspected lazy sub-term."""

    def __init__(self, space, tag='s'):
        self.space = space
        self.tag = tag
        self.vars = {}
        self.lazies = {}
        self.unknown_vars = {}

    def of_var(self, vid):
        name = self.space.name_of(vid)
        key = name if name is not None else 'v%s' % vid
        if key not in self.vars:
            self.vars[key] = z3.Const('%s_%s' % (self.tag, key), T())
        return self.vars[key]

    def of_lazy(self, lid):
        if lid not in self.lazies:
            self.lazies[lid] = z3.Const('lz_%s' % lid, T())
        return self.lazies[lid]

    def ground(self, v):
        Tt = T()
        k = v[0]
        if k == 'num':
            return Tt.num(H.bv(v[1]))
        if k == 'bool':
            b = v[1]
            return Tt.boolean(b if z3.is_expr(b) else z3.BoolVal(bool(b)))
        if k == 'char':
            c = v[1]
            return Tt.chr(c if z3.is_expr(c) else z3.BitVecVal(c, 32))
        if k == 'str':
            return Tt.str(z3.IntVal(str_id(v[1])))
        if k == 'nil':
            return Tt.nil
        if k == 'cons':
            return Tt.cons(self.ground(v[1]), self.ground(v[2]))
        if k == 'pair':
            return Tt.pair(self.ground(v[1]), self.ground(v[2]))
        if k == 'var':
            return self.of_var(v[1])
        if k == 'lazy':
            return self.of_lazy(v[1])
        if k == 'comp':
            args = Tt.nil
            for a in reversed(v[2]):
                args = Tt.cons(self.ground(a), args)
            return Tt.comp(z3.IntVal(str_id('comp:' + v[1])), args)
        raise NotEncodable('ground of ' + k)


def subst_views(entries):
    """[(key_view, value_view)] -> {var id: value view}"""
    return {k[1]: v for k, v in entries if k[0] == 'var'}


def occurs_cycle(bindings):
    """True if following the bindings from some variable reaches that variable again."""
    def vars_of(t, acc):
        if t[0] == 'var':
            acc.add(t[1])
        elif t[0] in ('cons', 'pair'):
            vars_of(t[1], acc)
            vars_of(t[2], acc)
        elif t[0] == 'comp':
            for a in t[2]:
                vars_of(a, acc)
        return acc
    graph = {k: vars_of(v, set()) for k, v in bindings.items()}
    state = {}

    def dfs(n):
        if state.get(n) == 1:
            return True
        if state.get(n) == 2:
            return False
        state[n] = 1
        for mm in graph.get(n, ()):
            if mm in graph and dfs(mm):
                return True
        state[n] = 2
        return False
    return any(dfs(n) for n in graph)


def rust_of_value(model, tval, depth=0):
    """z3 value of sort T -> proto-vulcan surface syntax."""
    Tt = T()
    tval = model.eval(tval, model_completion=True)
    if depth > 12:
        return '[]'
    d = tval.decl().name()
    if d == 'num':
        return str(tval.arg(0).as_signed_long())
    if d == 'boolean':
        return 'true' if z3.is_true(tval.arg(0)) else 'false'
    if d == 'chr':
        c = tval.arg(0).as_long()
        return "'%s'" % (chr(c) if 32 < c < 127 and chr(c) not in "'\\" else 'a')
    if d == 'str':
        i = tval.arg(0).as_long()
        for s, j in STR_IDS.items():
            if j == i and not s.startswith('comp:'):
                return '"%s"' % s
        return '"zz%d"' % i
    if d == 'nil':
        return '[]'
    if d == 'cons':
        items = []
        cur = tval
        while cur.decl().name() == 'cons':
            items.append(rust_of_value(model, cur.arg(0), depth + 1))
            cur = cur.arg(1)
        if cur.decl().name() == 'nil':
            return '[%s]' % ', '.join(items)
        return '[%s | %s]' % (', '.join(items), rust_of_value(model, cur, depth + 1))
    if d == 'pair':
        a, b = rust_of_value(model, tval.arg(0), depth + 1), rust_of_value(model, tval.arg(1), depth + 1)
        if a.startswith('"#'):
            if not (b.startswith('[') and '|' not in b):
                raise NotEncodable('ground instance is not a well-formed compound value')
            return '%s(%s)' % (a[2:-1], b[1:-1]) if a != '"#None"' else 'None'
        return '(%s, %s)' % (a, b)
    return '"opaque"'


def rust_of_view(space, v, model, sigma):
    """Term view -> surface syntax; numbers from the model; un-inspected sub-terms from sigma's constants."""
    k = v[0]
    if k == 'num':
        return str(H.model_int(model, v[1]))
    if k == 'bool':
        b = v[1]
        if z3.is_expr(b):
            b = z3.is_true(model.eval(b, model_completion=True))
        return 'true' if b else 'false'
    if k == 'str':
        return '"%s"' % v[1]
    if k == 'nil':
        return '[]'
    if k == 'var':
        return space.name_of(v[1]) or '_'
    if k == 'lazy':
        return rust_of_value(model, sigma.of_lazy(v[1]))
    if k == 'cons':
        items, cur = [], v
        while cur[0] == 'cons':
            items.append(rust_of_view(space, cur[1], model, sigma))
            cur = cur[2]
        if cur[0] == 'nil':
            return '[%s]' % ', '.join(items)
        return '[%s | %s]' % (', '.join(items), rust_of_view(space, cur, model, sigma))
    if k == 'pair':
        d = dec_cmp(v)
        if d is not None:
            return 'None' if d[0] == 'None' else '%s(%s)' % (d[0], ', '.join(rust_of_view(space, f, model, sigma) for f in d[1]))
        return '(%s, %s)' % (rust_of_view(space, v[1], model, sigma), rust_of_view(space, v[2], model, sigma))
    raise NotEncodable('rust_of_view ' + k)


def smap_views(space, m, state):
    """[(key_view, value_view)] of a State's substitution, using the lazy-aware view."""
    st = val(m, state)
    smap = val(m, st.fields[0])
    while isinstance(smap, Adt) and smap.ty in ('Rc',):
        smap = val(m, smap.fields[0])
    hm = val(m, smap.fields[0])
    return [(space.view(e.fields[0]), space.view(e.fields[1])) for e in hm.fields]
