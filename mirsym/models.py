"""Models of the standard-library functions that the executed crate code calls.

Every model is part of the trusted base (listed in the evidence).  A model receives the
machine and the argument values and returns the result value; models that take closures or
call trait methods of crate types re-enter the interpreter (`m.call`, `m.call_closure`).
Containers: `Vec<T>`/arrays/slices are `Adt('Vec'|'[array]', 0, elems)` of concrete length;
`HashMap<K, V>` is `Adt('HashMap', 0, entries)` with `entries` = `(tuple)(k, v)` in insertion
order; `HashSet<T>` is `Adt('HashSet', 0, elems)`.  Key equality is decided by the crate's own
`PartialEq` implementation of the key type, run through the interpreter.
"""
import re

import z3

from values import (Adt, Cell, Ref, Lazy, FnItem, Opaque, UNIT, Panic, NotEncodable, PathAbort,
                    is_sym, load, store)
from interp import INT_TYPES, to_bv, wrap, type_head, parse_callee

NONE = Adt('Option', 0, ())


def some(v):
    return Adt('Option', 1, (v,))


def ok(v):
    return Adt('Result', 0, (v,))


def err(v):
    return Adt('Result', 1, (v,))


class Models(object):
    def __init__(self):
        self.by_key = {}      # (self_ty, trait_base, method) -> handler
        self.by_path = {}     # normalised path -> handler
        self.used = set()
        self.hash_order = 'insertion'   # or 'symbolic'
        register_all(self)

    def zero_sized(self, ty):
        if 'iter::Empty' in ty:
            return mk_iter('empty')
        if ty.startswith('PhantomData') or 'marker::PhantomData' in ty:
            return UNIT
        return None

    def reg(self, self_ty, trait, method, fn):
        self.by_key[(self_ty, trait, method)] = fn

    def regp(self, path, fn):
        self.by_path[path] = fn

    def dispatch(self, m, key, args, fr):
        h = None
        if key.path is not None:
            h = self.by_path.get(key.path)
            if h is None and key.self_ty is not None:
                h = self.by_key.get((key.self_ty, None, key.method))
            if h is None:
                tail = '::'.join(key.path.split('::')[-2:])
                h = self.by_path.get(tail)
        else:
            tb = key.trait.split('<')[0] if key.trait else None
            st = key.self_ty
            h = self.by_key.get((st, key.trait, key.method)) or self.by_key.get((st, tb, key.method))
            if h is None and st is not None and st.startswith('&'):
                pass
            if h is None:
                # generic receiver: dispatch on the runtime type of the first argument
                st2 = m.resolve_param(st)
                if st2 != st:
                    st = st2
                    h = self.by_key.get((st, tb, key.method))
                if h is None and args:
                    rt = m.runtime_type(args[0])
                    if rt is not None and (re.fullmatch(r'[A-Z]\w?', key.self_ty or '') or (key.self_ty or '').startswith(('dyn ', '<')) or key.self_ty == 'Self'):
                        h = self.by_key.get((rt, tb, key.method))
                if h is None:
                    h = self.by_key.get(('*', tb, key.method))
        if h is None:
            return False, None
        self.used.add((key.self_ty, key.trait, key.method) if key.path is None else key.path)
        return True, h(m, args, key)


# ----------------------------------------------------------------------------------------------
# helpers
# ----------------------------------------------------------------------------------------------

def val(m, v):
    """Dereference references down to the value."""
    v = m.ctx.resolve(v)
    while isinstance(v, Ref):
        v = m.ctx.resolve(load(v, m.ctx.resolve))
    return v


def deref_ref(m, v):
    v = m.ctx.resolve(v)
    if not isinstance(v, Ref):
        raise NotEncodable('expected a reference, got %r' % (v,))
    return v


def call_closure(m, f, args):
    """Call a closure / fn item value `f` with positional arguments."""
    fv = f
    self_arg = f
    fv = val(m, f)
    if isinstance(fv, FnItem):
        return m.call(fv.name, list(args))
    if isinstance(fv, Adt) and fv.ty.startswith('{closure@'):
        name = m.p.closures.get(fv.ty)
        if name is None:
            name = find_closure(m.p, fv.ty)
        fn = m.p.fns[name]
        # first parameter is the closure itself: by value (FnOnce) or by reference
        first_ty = fn.arg_tys[0] if fn.arg_tys else ''
        if first_ty.strip().startswith('&'):
            # pass a reference to the closure value ITSELF (state captured with interior mutability must persist)
            a0 = innermost_ref(m, f) if isinstance(m.ctx.resolve(f), Ref) else Ref(Cell(fv))
        else:
            a0 = fv
        return m.call_fn(name, [a0] + list(args))
    if isinstance(fv, Adt) and fv.ty in ('Box', 'Rc'):
        r = m.ctx.resolve(f)
        if isinstance(r, Ref):
            r = innermost_ref(m, r)
            inner = load(Ref(r.cell, r.path + (0,)), m.ctx.resolve)
            if not isinstance(m.ctx.resolve(inner), Ref):
                return call_closure(m, Ref(r.cell, r.path + (0,)), args)
        return call_closure(m, fv.fields[0], args)
    raise NotEncodable('call of non-closure %r' % (fv,))


def find_closure(prog, closure_ty):
    """`{closure@src/a.rs:96:33: 96:40}` -> name of its MIR body."""
    mm = re.match(r'\{closure@([^:]+):(\d+):(\d+): (\d+):(\d+)\}', closure_ty)
    if not mm:
        raise NotEncodable('closure type ' + closure_ty)
    if not hasattr(prog, '_closure_index'):
        idx = {}
        for name, f in prog.fns.items():
            if '{closure#' in name and f.arg_tys:
                t = f.arg_tys[0]
                m2 = re.search(r'\{closure@[^}]*\}', t)
                if m2:
                    idx.setdefault(m2.group(0), name)
        prog._closure_index = idx
    name = prog._closure_index.get(closure_ty)
    if name is None:
        raise NotEncodable('no MIR body for ' + closure_ty)
    prog.closures[closure_ty] = name
    return name


def truth(m, b, what=''):
    """Branch on a (possibly symbolic) boolean, returning a Python bool."""
    if isinstance(b, bool):
        return b
    return m.ctx.branch(b, what)


def key_eq(m, a, b):
    """Equality of two map keys / set elements through the crate's PartialEq."""
    va, vb = val(m, a), val(m, b)
    if isinstance(va, Adt) and va.ty == 'Rc' and isinstance(vb, Adt) and vb.ty == 'Rc' and va.tag is not None:
        inner = val(m, va.fields[0])
        if not (isinstance(inner, Adt) and ('PartialEq', 'eq') in [(k[1], k[2]) for k in m.p.impls if k[0] == inner.ty]):
            return va.tag == vb.tag
    if isinstance(va, (int, bool, str)) and isinstance(vb, (int, bool, str)):
        return va == vb
    if isinstance(va, Adt) and va.ty == 'LTerm' and isinstance(vb, Adt) and vb.ty == 'LTerm':
        # shortcut for the overwhelmingly common case of map keys: two *variables* are equal iff their ids are
        # (exactly the Var/Var arm of <LTerm as PartialEq>::eq, which the C21 check executes from MIR); any other
        # combination goes through the crate's eq below
        ia, ib = _var_id(m, va), _var_id(m, vb)
        if ia is not None and ib is not None and not is_sym(ia) and not is_sym(ib):
            return ia == ib
    if is_sym(va) or is_sym(vb):
        if isinstance(va, bool) or isinstance(vb, bool) or (is_sym(va) and z3.is_bool(va)):
            return truth(m, (va if is_sym(va) else z3.BoolVal(va)) == (vb if is_sym(vb) else z3.BoolVal(vb)))
        w = va.size() if is_sym(va) else vb.size()
        return truth(m, to_bv(va, w) == to_bv(vb, w))
    ra = innermost_ref(m, a) if isinstance(m.ctx.resolve(a), Ref) else Ref(Cell(va))
    rb = innermost_ref(m, b) if isinstance(m.ctx.resolve(b), Ref) else Ref(Cell(vb))
    ty = va.ty if isinstance(va, Adt) else None
    name = m.p.impls.get((ty, 'PartialEq', 'eq')) or m.p.impls.get((ty, 'PartialEq<%s>' % ty, 'eq'))
    if name is None:
        for (t2, tr, mm), nm in m.p.impls.items():
            if t2 == ty and mm == 'eq' and tr and tr.startswith('PartialEq'):
                f = m.p.fns[nm]
                if len(f.arg_tys) == 2 and type_head(f.arg_tys[1]) in (ty, 'Self'):
                    name = nm
                    break
    if name is None:
        return structural_eq(m, va, vb)
    return truth(m, m.call_fn(name, [ra, rb]), 'key eq')


def _var_id(m, t):
    inner = t.fields[0]
    for _ in range(4):
        if isinstance(inner, Ref):
            inner = load(inner, None)
        elif isinstance(inner, Adt) and inner.ty == 'Rc':
            inner = inner.fields[0]
        else:
            break
    if isinstance(inner, Lazy):
        inner = m.ctx.lazy.get(inner.id)
    if isinstance(inner, Adt) and inner.ty == 'LTermInner' and m.p.enums['LTermInner'][inner.var] == 'Var':
        vid = inner.fields[0]
        return vid.fields[0] if isinstance(vid, Adt) else vid
    return None


def structural_eq(m, a, b):
    a, b = val(m, a), val(m, b)
    if isinstance(a, Adt) and isinstance(b, Adt):
        if a.ty != b.ty or a.var != b.var or len(a.fields) != len(b.fields):
            return False
        for x, y in zip(a.fields, b.fields):
            if not structural_eq(m, x, y):
                return False
        return True
    if is_sym(a) or is_sym(b):
        if (is_sym(a) and z3.is_bool(a)) or (is_sym(b) and z3.is_bool(b)):
            za = a if is_sym(a) else z3.BoolVal(bool(a))
            zb = b if is_sym(b) else z3.BoolVal(bool(b))
            return truth(m, za == zb)
        w = a.size() if is_sym(a) else b.size()
        return truth(m, to_bv(a, w) == to_bv(b, w))
    return a == b


def elems(m, v):
    v = val(m, v)
    if isinstance(v, Adt) and v.ty in ('Vec', '[array]', 'HashMap', 'HashSet', 'VecDeque'):
        return list(v.fields)
    raise NotEncodable('not a sequence: %r' % (v,))


def iter_order(m, n):
    """Order in which a hash container of n elements is iterated.  Default: insertion order.  In
    `fork` mode (C09) the order of the first few iterations is a symbolic choice: any rotation, and
    for n <= 3 any permutation, of the insertion order."""
    mode = getattr(m, 'hash_mode', 'insertion')
    if n >= 2 and mode == 'reverse':
        return list(range(n))[::-1]        # every hash iteration of the run is reversed
    if n >= 2 and mode == 'rotate':
        return list(range(1, n)) + [0]
    if n >= 2 and mode == 'alternate':
        # the order flips between consecutive iterations (stores are rebuilt with new hash seeds during a run)
        m.hash_flip = not getattr(m, 'hash_flip', False)
        return list(range(n))[::-1] if m.hash_flip else list(range(n))
    if n >= 2 and mode == 'alternate2':
        m.hash_flip = not getattr(m, 'hash_flip', True)
        return list(range(n))[::-1] if m.hash_flip else list(range(n))
    if n >= 2 and mode == 'swap':
        o = list(range(n))
        for i in range(0, n - 1, 2):
            o[i], o[i + 1] = o[i + 1], o[i]
        return o
    if n < 2 or mode != 'fork':
        return list(range(n))
    left = getattr(m, 'hash_forks_left', 0)
    if left <= 0:
        return list(range(n))
    m.hash_forks_left = left - 1
    import itertools
    if n <= 3:
        perms = list(itertools.permutations(range(n)))
    else:
        perms = [tuple((i + r) % n for i in range(n)) for r in range(n)]
    i = m.ctx.choose([True] * len(perms), 'hash iteration order')
    return list(perms[i])


# ----------------------------------------------------------------------------------------------
# Iterators: Python-side lazy iterator objects stored in Adt('Iter', 0, (IterState,))
# ----------------------------------------------------------------------------------------------

class It(object):
    """Iterator model: `items` already-evaluated values (front..back) plus lazy adaptor ops."""
    __slots__ = ('kind', 'src', 'f', 'state')

    def __init__(self, kind, src=None, f=None, state=None):
        self.kind, self.src, self.f, self.state = kind, src, f, state

    def __repr__(self):
        return 'It(%s)' % self.kind


def mk_iter(kind, src=None, f=None, state=None):
    return Adt('Iter', 0, (It(kind, src, f, state),))


def it_of(m, v):
    """Return (ref_or_None, Adt Iter) for an iterator argument (by value or &mut)."""
    r = m.ctx.resolve(v)
    if isinstance(r, Ref):
        cur = r
        x = m.ctx.resolve(load(cur, m.ctx.resolve))
        while isinstance(x, Ref):
            cur = x
            x = m.ctx.resolve(load(cur, m.ctx.resolve))
        if isinstance(x, Adt) and x.ty == 'Box':
            cur = Ref(cur.cell, cur.path + (0,))
            x = m.ctx.resolve(x.fields[0])
        return cur, x
    if isinstance(r, Adt) and r.ty == 'Box':
        return None, m.ctx.resolve(r.fields[0])
    return None, r


def seq_iter(items):
    return mk_iter('seq', state=(tuple(items), 0, len(items)))


def it_next(m, itv, back=False):
    """Advance iterator value `itv` (Adt Iter or crate iterator). Returns (new_itv, item|None)."""
    itv = m.ctx.resolve(itv)
    if isinstance(itv, Ref):
        # `&mut I` used as an iterator: advance the referenced iterator in place
        cur = innermost_ref(m, itv)
        ni, x = it_next(m, load(cur, m.ctx.resolve), back)
        store(cur, ni, m.ctx.resolve)
        return itv, x
    if isinstance(itv, Adt) and itv.ty == 'Box':
        ni, x = it_next(m, itv.fields[0], back)
        return Adt('Box', 0, (ni,), itv.tag), x
    if isinstance(itv, Adt) and itv.ty == 'Iter':
        s = itv.fields[0]
        k = s.kind
        if k == 'seq':
            items, lo, hi = s.state
            if lo >= hi:
                return itv, None
            if back:
                return mk_iter('seq', state=(items, lo, hi - 1)), items[hi - 1]
            return mk_iter('seq', state=(items, lo + 1, hi)), items[lo]
        if k == 'range':      # RangeInclusive-like over ints: state=(lo, hi, exhausted, width, signed)
            raise NotEncodable('range iter handled separately')
        if k == 'map':
            ns, x = it_next(m, s.src, back)
            if x is None:
                return mk_iter('map', ns, s.f), None
            return mk_iter('map', ns, s.f), call_closure(m, s.f, [x])
        if k == 'copied' or k == 'cloned':
            ns, x = it_next(m, s.src, back)
            if x is None:
                return mk_iter(k, ns), None
            xv = val(m, x)
            if k == 'cloned':
                xv = clone_value(m, x)
            return mk_iter(k, ns), xv
        if k == 'rev':
            ns, x = it_next(m, s.src, not back)
            return mk_iter('rev', ns), x
        if k == 'enumerate':
            ns, x = it_next(m, s.src, back)
            if x is None:
                return mk_iter('enumerate', ns, state=s.state), None
            if back:
                raise NotEncodable('enumerate next_back')
            return mk_iter('enumerate', ns, state=s.state + 1), Adt('(tuple)', 0, (s.state, x))
        if k == 'flat_map':
            if back:
                raise NotEncodable('flat_map next_back')
            src, inner = s.src, s.state
            while True:
                if inner is not None:
                    inner, x = it_next(m, inner, back)
                    if x is not None:
                        return mk_iter('flat_map', src, s.f, inner), x
                    inner = None
                src, y = it_next(m, src, back)
                if y is None:
                    return mk_iter('flat_map', src, s.f, None), None
                inner = into_iter_value(m, call_closure(m, s.f, [y]))
        if k == 'scan':
            if back:
                raise NotEncodable('scan next_back')
            if s.state is None:
                return itv, None
            ns, x = it_next(m, s.src, back)
            if x is None:
                return mk_iter('scan', ns, s.f, s.state), None
            r = val(m, call_closure(m, s.f, [Ref(s.state), x]))
            if r.var == 0:
                return mk_iter('scan', ns, s.f, None), None
            return mk_iter('scan', ns, s.f, s.state), r.fields[0]
        if k == 'filter':
            cur = s.src
            while True:
                cur, x = it_next(m, cur, back)
                if x is None:
                    return mk_iter('filter', cur, s.f), None
                xr = Ref(Cell(x))
                if truth(m, call_closure(m, s.f, [xr]), 'filter'):
                    return mk_iter('filter', cur, s.f), x
        if k == 'skip_while':
            cur, done = s.src, s.state
            while True:
                cur, x = it_next(m, cur, back)
                if x is None:
                    return mk_iter('skip_while', cur, s.f, done), None
                if done:
                    return mk_iter('skip_while', cur, s.f, True), x
                if not truth(m, call_closure(m, s.f, [Ref(Cell(x))]), 'skip_while'):
                    return mk_iter('skip_while', cur, s.f, True), x
        if k == 'take_while':
            if s.state:
                return itv, None
            cur, x = it_next(m, s.src, back)
            if x is None:
                return mk_iter('take_while', cur, s.f, s.state), None
            if truth(m, call_closure(m, s.f, [Ref(Cell(x))]), 'take_while'):
                return mk_iter('take_while', cur, s.f, False), x
            return mk_iter('take_while', cur, s.f, True), None
        if k == 'chain':
            a, b = s.src
            if not back:
                if a is not None:
                    na, x = it_next(m, a, False)
                    if x is not None:
                        return mk_iter('chain', (na, b)), x
                    a = None
                nb, x = it_next(m, b, False)
                return mk_iter('chain', (a, nb)), x
            nb, x = it_next(m, b, True)
            if x is not None:
                return mk_iter('chain', (a, nb)), x
            if a is None:
                return mk_iter('chain', (a, nb)), None
            na, x = it_next(m, a, True)
            return mk_iter('chain', (na, nb)), x
        if k == 'zip':
            a, b = s.src
            na, x = it_next(m, a, back)
            if x is None:
                return mk_iter('zip', (na, b)), None
            nb, y = it_next(m, b, back)
            if y is None:
                return mk_iter('zip', (na, nb)), None
            return mk_iter('zip', (na, nb)), Adt('(tuple)', 0, (x, y))
        if k == 'take':
            if s.state <= 0:
                return itv, None
            ns, x = it_next(m, s.src, back)
            return mk_iter('take', ns, state=(s.state - 1 if x is not None else 0)), x
        if k == 'skip':
            cur, n = s.src, s.state
            while n > 0:
                cur, x = it_next(m, cur, False)
                n -= 1
                if x is None:
                    return mk_iter('skip', cur, state=0), None
            ns, x = it_next(m, cur, back)
            return mk_iter('skip', ns, state=0), x
        if k == 'peekable':
            if s.state is not None:
                x = s.state[0]
                return mk_iter('peekable', s.src, state=None), x
            ns, x = it_next(m, s.src, back)
            return mk_iter('peekable', ns, state=None), x
        if k == 'once':
            if s.state is None:
                return itv, None
            return mk_iter('once', state=None), s.state
        if k == 'empty':
            return itv, None
        if k == 'flat_map' or k == 'flatten':
            raise NotEncodable('flat_map')
        raise NotEncodable('iterator kind ' + k)
    if isinstance(itv, Adt) and itv.ty == 'RangeInclusive':
        return range_incl_next(m, itv, back)
    if isinstance(itv, Adt) and itv.ty == 'Range':
        lo, hi = itv.fields
        if is_sym(lo) or is_sym(hi):
            raise NotEncodable('symbolic Range iteration')
        if lo >= hi:
            return itv, None
        if back:
            return Adt('Range', 0, (lo, hi - 1)), hi - 1
        return Adt('Range', 0, (lo + 1, hi)), lo
    if isinstance(itv, Adt):
        # crate-defined iterator: call its own `next`
        cell = Cell(itv)
        meth = 'next_back' if back else 'next'
        tr = 'DoubleEndedIterator' if back else 'Iterator'
        name = m.p.impls.get((itv.ty, tr, meth))
        if name is None:
            raise NotEncodable('no Iterator impl for %s' % itv.ty)
        r = val(m, m.call_fn(name, [Ref(cell)]))
        if r.var == 0:
            return cell.v, None
        return cell.v, r.fields[0]
    raise NotEncodable('not an iterator: %r' % (itv,))


def range_incl_next(m, rng, back):
    lo, hi, ex = rng.fields
    if ex is True:
        return rng, None
    if is_sym(ex):
        raise NotEncodable('symbolic exhausted flag')
    w = 64
    zlo, zhi = to_bv(lo, w), to_bv(hi, w)
    empty = zlo > zhi if (is_sym(lo) or is_sym(hi)) else (lo > hi)
    if truth(m, empty if is_sym(empty) else bool(empty), 'range empty'):
        return rng, None
    last = (zlo == zhi) if (is_sym(lo) or is_sym(hi)) else (lo == hi)
    if truth(m, last if is_sym(last) else bool(last), 'range last'):
        return Adt('RangeInclusive', 0, (lo, hi, True)), (hi if back else lo)
    if back:
        nh = (zhi - 1) if is_sym(hi) else hi - 1
        return Adt('RangeInclusive', 0, (lo, nh, False)), hi
    nl = (zlo + 1) if is_sym(lo) else lo + 1
    return Adt('RangeInclusive', 0, (nl, hi, False)), lo


def drain_all(m, itv, limit=64):
    out = []
    cur = itv
    for _ in range(limit):
        cur, x = it_next(m, cur)
        if x is None:
            return out
        out.append(x)
    raise NotEncodable('iterator longer than %d' % limit)


def into_iter_value(m, v):
    """IntoIterator::into_iter for by-value / by-ref containers."""
    r = m.ctx.resolve(v)
    if isinstance(r, Ref):
        c = val(m, r)
        if isinstance(c, Adt) and c.ty in ('Vec', '[array]', 'HashSet', 'VecDeque'):
            return seq_iter([Ref(r.cell, r.path + (i,)) for i in range(len(c.fields))]) if False else seq_iter(refs_into(m, r))
        if isinstance(c, Adt) and c.ty == 'HashMap':
            base = innermost_ref(m, r)
            return seq_iter([Adt('(tuple)', 0, (Ref(base.cell, base.path + (i, 0)), Ref(base.cell, base.path + (i, 1))))
                             for i in iter_order(m, len(c.fields))])
        if isinstance(c, Adt) and c.ty == 'Option':
            base = innermost_ref(m, r)
            return seq_iter([Ref(base.cell, base.path + (0,))] if c.var == 1 else [])
        if isinstance(c, Adt) and c.ty in ('Iter', 'RangeInclusive', 'Range'):
            return r
        # crate type implementing IntoIterator for &T
        name = m.p.impls.get(('&' + c.ty if False else c.ty, 'IntoIterator', 'into_iter'))
        if name:
            return m.call_fn(name, [r])
        raise NotEncodable('into_iter on &%s' % (c.ty if isinstance(c, Adt) else c))
    if isinstance(r, Adt):
        if r.ty in ('Vec', '[array]', 'HashSet', 'VecDeque'):
            return seq_iter(list(r.fields))
        if r.ty == 'HashMap':
            return seq_iter([r.fields[i] for i in iter_order(m, len(r.fields))])
        if r.ty == 'Option':
            return seq_iter(list(r.fields) if r.var == 1 else [])
        if r.ty in ('Iter', 'RangeInclusive', 'Range', 'Box'):
            return r
        name = m.p.impls.get((r.ty, 'IntoIterator', 'into_iter'))
        if name:
            return m.call_fn(name, [r])
        if m.p.impls.get((r.ty, 'Iterator', 'next')):
            return r
    raise NotEncodable('into_iter on %r' % (r,))


def innermost_ref(m, r):
    """Follow reference chains: returns the Ref that points at the non-reference value."""
    cur = m.ctx.resolve(r)
    while True:
        x = m.ctx.resolve(load(cur, m.ctx.resolve))
        if isinstance(x, Ref):
            cur = x
            continue
        if isinstance(x, Adt) and x.ty in ('Rc', 'Box') and len(x.fields) == 1 and False:
            cur = Ref(cur.cell, cur.path + (0,))
            continue
        return cur


def refs_into(m, r):
    base = innermost_ref(m, r)
    c = m.ctx.resolve(load(base, m.ctx.resolve))
    return [Ref(base.cell, base.path + (i,)) for i in range(len(c.fields))]


def clone_value(m, v):
    """`Clone::clone(&v)` by value semantics; crate types with hand-written Clone are run."""
    x = val(m, v)
    return x


# ----------------------------------------------------------------------------------------------
# registration
# ----------------------------------------------------------------------------------------------

def register_all(M):
    from models_std import register
    register(M)
