"""Fork-based parallel map for mirsym task lists (the MIR Program is loaded once in the parent
and shared copy-on-write; z3 objects are only created inside workers)."""
import multiprocessing as mp
import os
import traceback

_FN = None


def _call(task):
    try:
        return ('ok', _FN(task))
    except Exception as e:   # worker failures are reported, never swallowed
        return ('error', '%s: %s\n%s' % (type(e).__name__, e, traceback.format_exc()[-1500:]))


def pmap(fn, tasks, jobs=None):
    global _FN
    _FN = fn
    jobs = jobs or min(16, os.cpu_count() or 4)
    if jobs <= 1:
        return [_call(t) for t in tasks]
    ctx = mp.get_context('fork')
    with ctx.Pool(jobs) as pool:
        return pool.map(_call, tasks, chunksize=1)


def explore_parallel(task_fn, base_task, seed_fn, jobs=None, chunk=4):
    """Two-stage exploration of one scenario: `seed_fn(base_task)` explores shortest-prefix-first in
    this process until enough sub-trees are pending and returns (partial_result, frontier);
    every frontier prefix is then explored to exhaustion by `task_fn(base_task + (prefixes,))` in
    worker processes.  Returns [partial_result] + [('ok'|'error', result), ...]."""
    first, frontier = seed_fn(base_task)
    if not frontier:
        return [('ok', first)]
    groups = [frontier[i:i + chunk] for i in range(0, len(frontier), chunk)]
    rest = pmap(task_fn, [tuple(base_task) + (g,) for g in groups], jobs)
    return [('ok', first)] + rest
