"""Value domain of the MIR symbolic executor.

Values are immutable trees (`Adt`) with Python ints/bools/strs or z3 terms at the leaves; a
place is a (Cell, path) pair and writes are functional updates of the cell's tree.  `Rc<T>` and
`Box<T>` are erased to one-field Adts (value semantics, DESIGN.md §1): `clone` copies the tree
reference, `drop` is a no-op.  Every `Rc` allocation gets a fresh identity tag so that
pointer-identity based code (`Rc<dyn Constraint>` as a hash-set key) can be modelled.
"""
import z3


class Adt(object):
    __slots__ = ('ty', 'var', 'fields', 'tag')

    def __init__(self, ty, var, fields, tag=None):
        self.ty = ty
        self.var = var
        self.fields = tuple(fields)
        self.tag = tag

    def with_field(self, i, v):
        f = list(self.fields)
        f[i] = v
        return Adt(self.ty, self.var, f, self.tag)

    def __repr__(self):
        return show(self)


class Cell(object):
    __slots__ = ('v', 'name')

    def __init__(self, v=None, name=''):
        self.v = v
        self.name = name


class Ref(object):
    """Reference / raw pointer to a place. `meta` is the slice length for fat slice pointers."""
    __slots__ = ('cell', 'path', 'meta')

    def __init__(self, cell, path=(), meta=None):
        self.cell = cell
        self.path = tuple(path)
        self.meta = meta

    def __repr__(self):
        return '&' + show(load(self))


class Lazy(object):
    """A symbolic enum value whose constructor has not been inspected yet (lazy
    initialisation).  `spec.alternatives(ctx, lazy)` lists the constructors it may take."""
    __slots__ = ('ty', 'id', 'spec')

    def __init__(self, ty, id_, spec):
        self.ty = ty
        self.id = id_
        self.spec = spec

    def __repr__(self):
        return '?%s#%s' % (self.ty, self.id)


class FnItem(object):
    __slots__ = ('name',)

    def __init__(self, name):
        self.name = name

    def __repr__(self):
        return 'fn(%s)' % self.name


class Opaque(object):
    """A value the executor carries around without looking inside."""
    __slots__ = ('what',)

    def __init__(self, what):
        self.what = what

    def __repr__(self):
        return '<%s>' % (self.what,)


UNIT = Adt('()', 0, ())


class Panic(Exception):
    """The executed code panicked (message)."""


class NotEncodable(Exception):
    """The executor met something it has no semantics for; the path is inconclusive."""


class PathAbort(Exception):
    """Path infeasible / pruned by an assumption."""


def is_sym(v):
    return isinstance(v, z3.ExprRef)


def load(ref, resolve=None):
    v = ref.cell.v
    if resolve is not None:
        v = resolve(v)
    for i in ref.path:
        if v is None:
            raise NotEncodable('read through uninitialised place')
        if not isinstance(v, Adt):
            raise NotEncodable('projection %r into non-aggregate %r' % (i, v))
        try:
            v = v.fields[i]
        except IndexError:
            raise NotEncodable('field %d out of range in %r' % (i, v))
        if resolve is not None:
            v = resolve(v)
    return v


def store(ref, val, resolve=None):
    ref.cell.v = _update(ref.cell.v, ref.path, val, resolve)


def _update(v, path, val, resolve):
    if not path:
        return val
    if resolve is not None:
        v = resolve(v)
    if not isinstance(v, Adt):
        raise NotEncodable('write through non-aggregate %r' % (v,))
    i = path[0]
    return v.with_field(i, _update(v.fields[i], path[1:], val, resolve))


def show(v, depth=0):
    if depth > 8:
        return '..'
    if isinstance(v, Adt):
        if v.ty in ('Rc', 'Box') and len(v.fields) == 1:
            return show(v.fields[0], depth)
        if v.ty == 'LTerm' and len(v.fields) == 1:
            return show(v.fields[0], depth)
        inner = ', '.join(show(f, depth + 1) for f in v.fields)
        name = v.ty if isinstance(v.var, int) and v.var == 0 and not inner else '%s::%s' % (v.ty, v.var)
        return '%s(%s)' % (name, inner) if inner else name
    if isinstance(v, Ref):
        try:
            return '&' + show(load(v), depth + 1)
        except Exception:
            return '&?'
    if is_sym(v):
        return str(v)
    return repr(v)
