import sys, time
sys.setrecursionlimit(20000)
import interp, models
from values import *
P = interp.Program()
P.load('/tmp/pvmir/lib.mir', '/tmp/pvmir')
print(len(P.fns), len(P.impls), len(P.enums))
print(P.enums['LTermInner'], P.enums['Stream'], P.enums['Lazy'], P.enums['Goal'])
M = models.Models()
def mk(ctx): return interp.Machine(P, ctx, generics={'U':'DefaultUser','E':'StreamEngine','G':'Goal'}, models=M)
def scen(m):
    user = m.call('DefaultUser::new', [])
    st = m.call('State::<U, E>::new', [user])
    x = m.call('LTerm::<U, E>::var', ['x'])
    one = m.call('<LTerm<U, E> as From<isize>>::from', [m.ctx.fresh_bv('n')])
    two = m.call('<LTerm<U, E> as From<isize>>::from', [m.ctx.fresh_bv('k')])
    r = m.call('State::<U, E>::unify', [st, Ref(Cell(x)), Ref(Cell(one))])
    print('r1', r.var)
    r2 = m.call('State::<U, E>::unify', [r.fields[0], Ref(Cell(x)), Ref(Cell(two))])
    return r2
def onp(r):
    print(r.status, r.detail, r.value, r.ctx.pc, r.ctx.decisions)
st = interp.explore(mk, scen, on_path=onp)
print(st)
