// Counterexample found by mirsym/z3 for property C22, template hooks_balance_after_reify_mixed: |x, y, z| { q == [x, z], z != p0, infd([x, y], &[1, 2]), distinctfd([x, y]), x == 1 } with parameters [-3]: engine answer 0 is not a reference answer (or is returned too often): the ground instance q = [[1, []], -1] is an instance of an engine answer but not a solution
// Replay: /verif/check C22 --replay /verif/replay/cases/C22-hooks_balance_after_reify_mixed_spurious.rs
#![allow(unused_imports, unused_variables, unused_mut, dead_code)]
use proto_vulcan::prelude::*;
use proto_vulcan::lterm::LTerm;
use proto_vulcan::relation::{diseqfd, distinctfd, infd, infdrange, ltefd, ltfd, minusfd, plusfd, timesfd};
use proto_vulcan::relation::{append, member};
use proto_vulcan::solver::{Solve, Solver};
use proto_vulcan::state::State;
use proto_vulcan::stream::Stream;
use std::rc::Rc;
/// User type that counts the hook calls (C22).
#[derive(Debug, Clone, Default)]
pub struct CntUser {
    pub with_calls: isize,
    pub take_calls: isize,
    pub ext_calls: isize,
    pub last_ext_len: isize,
}

impl User for CntUser {
    type UserTerm = ();
    type UserContext = ();

    fn process_extension<E: Engine<Self>>(
        mut state: State<Self, E>,
        extension: &proto_vulcan::state::SMap<Self, E>,
    ) -> proto_vulcan::state::SResult<Self, E> {
        state.user_state.ext_calls += 1;
        state.user_state.last_ext_len = extension.iter().count() as isize;
        Ok(state)
    }

    fn with_constraint<E: Engine<Self>>(state: &mut State<Self, E>, _c: &Rc<dyn Constraint<Self, E>>) {
        state.user_state.with_calls += 1;
    }

    fn take_constraint<E: Engine<Self>>(state: &mut State<Self, E>, _c: &Rc<dyn Constraint<Self, E>>) {
        state.user_state.take_calls += 1;
    }
}

pub type CE = DefaultEngine<CntUser>;
pub type TC = LTerm<CntUser, CE>;
pub type RC = proto_vulcan::lresult::LResult<CntUser, CE>;

/// Probe goal: unifies `out` with [with - take - (constraints in the store), ext_calls, last_ext_len].
#[derive(Debug)]
pub struct Probe {
    out: TC,
}

impl Solve<CntUser, CE> for Probe {
    fn solve(&self, _solver: &Solver<CntUser, CE>, state: State<CntUser, CE>) -> Stream<CntUser, CE> {
        let stored = state.cstore_ref().iter().count() as isize;
        let balance = state.user_state.with_calls - state.user_state.take_calls - stored;
        let rec: TC = LTerm::from_vec(vec![
            LTerm::from(balance),
            LTerm::from(state.user_state.ext_calls),
            LTerm::from(state.user_state.last_ext_len),
        ]);
        // the probe itself must not disturb the counters: bind `out` directly
        let mut state = state;
        let target = state.smap_ref().walk(&self.out).clone();
        if target.is_var() {
            state.smap_to_mut().extend(target, rec);
            Stream::unit(Box::new(state))
        } else {
            Stream::empty()
        }
    }
}

pub fn probe(out: TC) -> Goal<CntUser, CE> {
    Goal::dynamic(Rc::new(Probe { out }))
}


#[test]
fn replay() {
    let p0: TC = LTerm::from(-3);
    let q: TC = LTerm::var("q");
    let goal: Goal<CntUser, CE> = proto_vulcan!([
        |x, y, z| { q == [x, z], z != p0, infd([x, y], &[1, 2]), distinctfd([x, y]), x == 1 },
        q == [[1, []], -1],
        proto_vulcan::state::reify(q.clone())
    ]);
    let mut solver: Solver<CntUser, CE> = Solver::new((), false);
    let mut stream = solver.start(&goal, State::new(CntUser::default()));
    let mut got: Vec<String> = vec![];
    while got.len() < 64 { match solver.next(&mut stream) { Some(st) => { let bal = st.user_state.with_calls - st.user_state.take_calls - (st.cstore_ref().iter().count() as isize);
        let s = format!("[{}, {}]", st.smap_ref().walk_star(&q), bal); let mut o = String::new(); let mut it = s.chars().peekable();
        while let Some(c) = it.next() { o.push(c); if c == '_' { if it.peek() == Some(&'.') { it.next(); while it.peek().map_or(false, |d| d.is_ascii_digit()) { it.next(); } } } }
        got.push(o) } None => break } }
    assert_eq!(got.len() > 0, false, "q = [[1, []], -1] must not be a solution");
}
