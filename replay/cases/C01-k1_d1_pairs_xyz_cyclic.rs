// Counterexample found by mirsym/z3 for property C01: a binding that makes a term contain itself was accepted e.g. (x, 0) == x
// Replay: /verif/check C01 --replay /verif/replay/cases/C01-k1_d1_pairs_xyz_cyclic.rs   (runs this program natively against /repo)
use proto_vulcan::prelude::*;

#[test]
fn replay() {
    let query = proto_vulcan_query!(|q| {
        |x, y, z| {
            q == 0,
            (x, 0) == x
        }
    });
    let n = query.run().count() as isize;
    let expected: isize = 0; // -1: any number of answers, but no panic
    assert!(expected < 0 || n == expected, "number of answers {} (expected {})", n, expected);
}
