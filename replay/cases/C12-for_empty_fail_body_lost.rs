// Counterexample found by mirsym/z3 for property C12, template for_empty_fail_body: q == p0, for e in &coll { false } with parameters [-3]: reference answer 0 is missing from the engine's answers: the ground instance q = -3 is a solution that no engine answer covers
// Replay: /verif/check C12 --replay /verif/replay/cases/C12-for_empty_fail_body_lost.rs
#![allow(unused_imports, unused_variables, unused_mut)]
use proto_vulcan::prelude::*;
use proto_vulcan::lterm::LTerm;
use proto_vulcan::operator::{anyo, cond, conda, condu, dfs, onceo};
use proto_vulcan::relation::{append, cons, distinct, empty, first, member, member1, permute, rember, rest};
use proto_vulcan::operator::{matche, matcha, matchu};
use proto_vulcan::solver::{Solve, Solver};
use proto_vulcan::state::State;
use proto_vulcan::stream::Stream;
use std::rc::Rc;
type T = LTerm<DefaultUser, DefaultEngine<DefaultUser>>;
type TU = DefaultUser;
type TE = DefaultEngine<DefaultUser>;
#[derive(Debug)]
pub struct Succ { u: T, v: T }
impl Solve<TU, TE> for Succ {
    fn solve(&self, _solver: &Solver<TU, TE>, state: State<TU, TE>) -> Stream<TU, TE> {
        match self.u.get_number() {
            Some(n) => match state.unify(&LTerm::from(n + 1), &self.v) { Ok(st) => Stream::unit(Box::new(st)), Err(_) => Stream::empty() },
            None => Stream::empty(),
        }
    }
}
pub fn succ(u: T, v: T) -> Goal<TU, TE> { Goal::dynamic(Rc::new(Succ { u, v })) }
pub fn succ_head(u: T, v: T) -> Goal<TU, TE> { match u.head() { Some(h) => Goal::dynamic(Rc::new(Succ { u: h.clone(), v })), None => Goal::Fail } }

#[test]
fn replay() {
    let p0: T = LTerm::from(-3);
    let coll: Vec<T> = vec![];
    let query = proto_vulcan_query!(|q| {
        q == p0,
        for e in &coll { false },
        q == -3
    });
    let n = query.run().take(64).count();
    assert_eq!(n > 0, true, "q = -3 must be a solution");
}
