// Counterexample found by Kani/CBMC for property C18, harness c18::c18c::contains_s2_slice
// failed check: "contains differs from membership"
// Replay: /verif/check C18 --replay /verif/replay/cases/C18-c18.c18c.contains_s2_slice.rs   (runs this test natively against /repo, no hooks)
#[test]
fn replay() {
    pvk::nd::set_replay(vec![
        vec![1, 0, 0, 0, 0, 0, 0, 0],
        vec![0, 0, 0, 0, 0, 0, 0, 0],
        vec![253, 255, 255, 255, 255, 255, 255, 255]
    ]);
    pvk::c18::c18c::contains_s2_slice();
}
