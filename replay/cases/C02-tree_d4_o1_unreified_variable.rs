// Counterexample found by mirsym/z3 for property C02, template tree_d4_o1: |x, y| { q == [x, y], y == p1, x != [p0, y] } with parameters [0, 0]: an answer (term or reported constraint) mentions the program variable(s) ['y'] instead of reified `_` variables
// Replay: /verif/check C02 --replay /verif/replay/cases/C02-tree_d4_o1_unreified_variable.rs
#![allow(unused_imports, unused_variables, unused_mut)]
use proto_vulcan::prelude::*;
use proto_vulcan::lterm::LTerm;
use proto_vulcan::operator::{anyo, cond, conda, condu, dfs, onceo};
use proto_vulcan::relation::{append, cons, distinct, empty, first, member, member1, permute, rember, rest};
type T = LTerm<DefaultUser, DefaultEngine<DefaultUser>>;

#[test]
fn replay() {
    let p0: T = LTerm::from(0);
    let p1: T = LTerm::from(0);
    let query = proto_vulcan_query!(|q| {
        |x, y| { q == [x, y], y == p1, x != [p0, y] }
    });
    for r in query.run().take(64) {
        let s = format!("{}", r.q);
        for tok in s.split(|c: char| !(c.is_alphanumeric() || c == '_')) {
            assert!(!["y"].contains(&tok), "answer `{}` mentions the program variable {}", s, tok);
        }
    }
}
