// Counterexample found by mirsym/z3 for property C06, template bfs_conde4_conjfalse: conde { q == p0, q == p1, [q == p2, false], q == p3 } with parameters [-3, -2, -3, -3]: reference answer 1 is missing from the engine's answers: the ground instance q = -2 is a solution that no engine answer covers
// Replay: /verif/check C06 --replay /verif/replay/cases/C06-bfs_conde4_conjfalse_lost.rs
#![allow(unused_imports, unused_variables, unused_mut)]
use proto_vulcan::prelude::*;
use proto_vulcan::lterm::LTerm;
use proto_vulcan::operator::{anyo, cond, conda, condu, dfs, onceo};
use proto_vulcan::relation::{append, cons, distinct, empty, first, member, member1, permute, rember, rest};
type T = LTerm<DefaultUser, DefaultEngine<DefaultUser>>;

#[test]
fn replay() {
    let p0: T = LTerm::from(-3);
    let p1: T = LTerm::from(-2);
    let p2: T = LTerm::from(-3);
    let p3: T = LTerm::from(-3);
    let query = proto_vulcan_query!(|q| {
        conde { q == p0, q == p1, [q == p2, false], q == p3 },
        q == -2
    });
    let n = query.run().take(64).count();
    assert_eq!(n > 0, true, "q = -2 must be a solution");
}
