// Counterexample found by mirsym/z3 for property C21: list operation panics on [0 | 0]: called `Option::unwrap()` on a `None` value
// Replay: /verif/check C21 --replay /verif/replay/cases/C21-list_d1_panic.rs
use proto_vulcan::prelude::*;
use std::collections::hash_map::DefaultHasher;
use std::hash::{Hash, Hasher};
type T = LTerm<DefaultUser, DefaultEngine<DefaultUser>>;
fn h(t: &T) -> u64 { let mut s = DefaultHasher::new(); t.hash(&mut s); s.finish() }
fn elems(t: &T) -> Vec<T> {
    // element sequence by plain structural recursion (independent of LTermIter)
    let mut out = vec![]; let mut cur = t.clone();
    loop {
        let next = match (cur.head(), cur.tail()) { (Some(hd), Some(tl)) => { out.push(hd.clone()); tl.clone() } _ => break };
        cur = next;
    }
    if !cur.is_empty() { out.push(cur); }
    out
}

#[test]
fn replay() {
    let x: T = LTerm::var("x");
    let l: T = lterm!([0 | 0]);
    let xs = elems(&l);
    let it: Vec<T> = l.iter().cloned().collect();
    assert_eq!(it.len(), xs.len(), "iter() length on {}", l);
    for (a, b) in it.iter().zip(xs.iter()) { assert!(a == b, "iter() element on {}", l); }
    assert_eq!(l.iter().count(), xs.len());
    { let mut c = l.clone(); let n = c.iter_mut().count(); assert_eq!(n, xs.len(), "iter_mut() length on {}", l); }
    { let mut c = l.clone(); for (a, b) in c.iter_mut().zip(xs.iter()) { assert!(&*a == b, "iter_mut() element on {}", l); } }
    for (i, x) in xs.iter().enumerate() { let mut c = l.clone(); assert!(&c[i] == x); let r: &mut T = &mut c[i]; assert!(&*r == x, "index_mut {} on {}", i, l); }
    if l.is_list() && !l.is_improper() { let mut c = l.clone(); c.extend(vec![LTerm::from(77)]); assert!(elems(&l) == xs, "extend of a clone changed the original {}", l); assert_eq!(elems(&c).len(), xs.len() + 1); }
    for (i, x) in xs.iter().enumerate() { assert!(&l[i] == x, "index {} on {}", i, l); assert!(l.contains(x), "contains on {}", l); }
    if !l.is_improper() && l.is_list() {
        let rebuilt: T = LTerm::from_vec(xs.clone());
        assert!(rebuilt == l, "from_vec(elements) on {}", l);
        let collected: T = xs.iter().cloned().collect();
        assert!(collected == l, "collect on {}", l);
        let k = xs.len() / 2;
        let mut pre: T = LTerm::from_vec(xs[..k].to_vec());
        pre.extend(xs[k..].to_vec());
        assert!(pre == l, "extend on {}", l);
    } else if l.is_improper() {
        let rebuilt: T = LTerm::improper_from_vec(xs.clone());
        assert!(rebuilt == l, "improper_from_vec(elements) on {}", l);
    }
}
