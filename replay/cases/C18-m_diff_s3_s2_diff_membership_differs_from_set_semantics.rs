// Counterexample found by mirsym/z3 for property C18: diff: membership differs from set semantics on [('s', [-1, -2, -1]), ('s', [-1, -1])] (probe value -1)
// Replay: /verif/check C18 --replay /verif/replay/cases/C18-m_diff_s3_s2_diff_membership_differs_from_set_semantics.rs
use proto_vulcan::state::FiniteDomain;
use std::collections::BTreeSet;

fn set(d: &[isize]) -> BTreeSet<isize> { d.iter().cloned().collect() }
fn members(spec: &str, lo: isize, hi: isize, v: &[isize]) -> BTreeSet<isize> {
    if spec == "i" { (lo..=hi).collect() } else { set(v) }
}
fn raw(d: &Option<FiniteDomain>) -> BTreeSet<isize> {
    match d { None => BTreeSet::new(), Some(FiniteDomain::Interval(r)) => (*r.start()..=*r.end()).collect(), Some(FiniteDomain::Sparse(v)) => set(v) }
}

#[test]
fn replay() {
    let a = FiniteDomain::from(vec![-1, -2, -1]);
    let b = FiniteDomain::from(vec![-1, -1]);
    let sa: BTreeSet<isize> = set(&[-1, -2, -1]);
    let sb: BTreeSet<isize> = set(&[-1, -1]);
    let op = "diff";
    if op == "diff" {
        let r = a.diff(&b);
        assert_eq!(raw(&r), sa.difference(&sb).cloned().collect::<BTreeSet<_>>());
        if let Some(FiniteDomain::Sparse(v)) = &r { assert!(!v.is_empty()); }
    } else if op == "intersect" {
        let r = a.intersect(&b);
        assert_eq!(raw(&r), sa.intersection(&sb).cloned().collect::<BTreeSet<_>>());
    } else if op == "eq" {
        assert_eq!(a == b, sa == sb);
    } else if op == "disjoint" {
        assert_eq!(a.is_disjoint(&b), sa.is_disjoint(&sb));
    } else {
        let xs: Vec<isize> = a.iter().collect();
        assert_eq!(xs, sa.iter().cloned().collect::<Vec<_>>());
    }
}
