// Counterexample found by mirsym/z3 for property C19: y==z ; plusz(x,N,y) succeeds although the equations do not hold e.g. y == z, plusz(x, 11, y), x == -138, y == -127, z == 125
// Replay: /verif/check C19 --replay /verif/replay/cases/C19-S2_plusz_y_z_plusz_x_N_y_unsound.rs   (runs this program natively against /repo)
use proto_vulcan::prelude::*;
#[allow(unused_imports)]
use proto_vulcan::relation::clpz::plusz::plusz;
#[allow(unused_imports)]
use proto_vulcan::relation::clpz::timesz::timesz;

#[test]
fn replay() {
    let query = proto_vulcan_query!(|q| {
        |x, y, z| {
            y == z,
            plusz(x, 11, y),
            x == -138,
            y == -127,
            z == 125,
            q == [x, y, z]
        }
    });
    let n = query.run().count() as isize;
    let expected: isize = 0; // -1: any number of answers, but no panic
    assert!(expected < 0 || n == expected, "number of answers {} (expected {})", n, expected);
}
