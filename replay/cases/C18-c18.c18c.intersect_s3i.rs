// Counterexample found by Kani/CBMC for property C18, harness c18::c18c::intersect_s3i
// failed check: "result membership differs from set semantics"
// Replay: /verif/check C18 --replay /verif/replay/cases/C18-c18.c18c.intersect_s3i.rs   (runs this test natively against /repo, no hooks)
#[test]
fn replay() {
    pvk::nd::set_replay(vec![
        vec![0, 0, 0, 0, 0, 0, 0, 0],
        vec![1, 0, 0, 0, 0, 0, 0, 0],
        vec![3, 0, 0, 0, 0, 0, 0, 0],
        vec![2, 0, 0, 0, 0, 0, 0, 0],
        vec![2, 0, 0, 0, 0, 0, 0, 0],
        vec![254, 255, 255, 255, 255, 255, 255, 255]
    ]);
    pvk::c18::c18c::intersect_s3i();
}
