// Counterexample found by mirsym/z3 for property C05, template dfs_cond_members: dfs { cond { member(q, [p0, p1]), member(q, [p2, p3]) } } with parameters [-3, 2, -3, -3]: answer 1 differs (same ground instances; expected answers ['-3', '2', '-3', '-3'])
// Replay: /verif/check C05 --replay /verif/replay/cases/C05-dfs_cond_members_order_or_count.rs
#![allow(unused_imports, unused_variables, unused_mut)]
use proto_vulcan::prelude::*;
use proto_vulcan::lterm::LTerm;
use proto_vulcan::operator::{anyo, cond, conda, condu, dfs, onceo};
use proto_vulcan::relation::{append, cons, distinct, empty, first, member, member1, permute, rember, rest};
type T = LTerm<DefaultUser, DefaultEngine<DefaultUser>>;

#[test]
fn replay() {
    let p0: T = LTerm::from(-3);
    let p1: T = LTerm::from(2);
    let p2: T = LTerm::from(-3);
    let p3: T = LTerm::from(-3);
    let query = proto_vulcan_query!(|q| {
        dfs { cond { member(q, [p0, p1]), member(q, [p2, p3]) } }
    });
    let re = |s: String| { let mut o = String::new(); let mut it = s.chars().peekable();
        while let Some(c) = it.next() { o.push(c); if c == '_' { if it.peek() == Some(&'.') { it.next(); while it.peek().map_or(false, |d| d.is_ascii_digit()) { it.next(); } } } } o };
    let mut got: Vec<String> = query.run().take(64).map(|r| re(format!("{}", *r.q))).collect();
    let mut expected: Vec<String> = vec!["-3".to_string(), "2".to_string(), "-3".to_string(), "-3".to_string()];
    assert_eq!(got, expected);
}
