// Counterexample found by mirsym/z3 for property C10, template iso0_both_mid: q != p0, conde { conde { true, q == p1, q == p2 }, q == p3, false } with parameters [2, 2, -3, 2]: reference answer 1 is missing from the engine's answers (same ground instances; expected answers ['__q', '-3'])
// Replay: /verif/check C10 --replay /verif/replay/cases/C10-iso0_both_mid_order_or_count.rs
#![allow(unused_imports, unused_variables, unused_mut)]
use proto_vulcan::prelude::*;
use proto_vulcan::lterm::LTerm;
use proto_vulcan::operator::{anyo, cond, conda, condu, dfs, onceo};
use proto_vulcan::relation::{append, cons, distinct, empty, first, member, member1, permute, rember, rest};
type T = LTerm<DefaultUser, DefaultEngine<DefaultUser>>;

#[test]
fn replay() {
    let p0: T = LTerm::from(2);
    let p1: T = LTerm::from(2);
    let p2: T = LTerm::from(-3);
    let p3: T = LTerm::from(2);
    let query = proto_vulcan_query!(|q| {
        q != p0,
        conde { conde { true, q == p1, q == p2 }, q == p3, false }
    });
    let re = |s: String| { let mut o = String::new(); let mut it = s.chars().peekable();
        while let Some(c) = it.next() { o.push(c); if c == '_' { if it.peek() == Some(&'.') { it.next(); while it.peek().map_or(false, |d| d.is_ascii_digit()) { it.next(); } } } } o };
    let mut got: Vec<String> = query.run().take(64).map(|r| re(format!("{}", *r.q))).collect();
    let mut expected: Vec<String> = vec!["__q".to_string(), "-3".to_string()];
    got.sort();
    expected.sort();
    assert_eq!(got, expected);
}
