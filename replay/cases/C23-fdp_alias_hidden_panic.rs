// Counterexample found by mirsym/z3 for property C23, template fdp_alias_hidden: |x, y, z| { q == p0, infdrange([x, y, z], &(0..=2)), x == y, ltefd(x, z) } with parameters [0]: program panics: explicit panic
// Replay: /verif/check C23 --replay /verif/replay/cases/C23-fdp_alias_hidden_panic.rs
#![allow(unused_imports, unused_variables, unused_mut)]
use proto_vulcan::prelude::*;
use proto_vulcan::lterm::LTerm;
use proto_vulcan::operator::{anyo, cond, conda, condu, dfs, onceo};
use proto_vulcan::relation::{append, cons, distinct, empty, first, member, member1, permute, rember, rest};
use proto_vulcan::operator::{matche, matcha, matchu};
use proto_vulcan::relation::{diseqfd, distinctfd, infd, infdrange, ltefd, ltfd, minusfd, plusfd, timesfd};
use proto_vulcan::relation::clpz::plusz::plusz;
use proto_vulcan::relation::clpz::timesz::timesz;
use proto_vulcan::solver::{Solve, Solver};
use proto_vulcan::state::State;
use proto_vulcan::stream::Stream;
use std::rc::Rc;
type T = LTerm<DefaultUser, DefaultEngine<DefaultUser>>;
type TU = DefaultUser;
type TE = DefaultEngine<DefaultUser>;
#[derive(Debug)]
pub struct Succ { u: T, v: T, mode: usize }
impl Solve<TU, TE> for Succ {
    fn solve(&self, _solver: &Solver<TU, TE>, state: State<TU, TE>) -> Stream<TU, TE> {
        let n = if self.mode == 0 { self.u.get_number() } else { self.u.head().and_then(|h| h.get_number()) };
        match n {
            Some(n) => match state.unify(&LTerm::from(n + 1), &self.v) { Ok(st) => Stream::unit(Box::new(st)), Err(_) => Stream::empty() },
            None => Stream::empty(),
        }
    }
}
pub fn succ(u: T, v: T) -> Goal<TU, TE> { Goal::dynamic(Rc::new(Succ { u, v, mode: 0 })) }
pub fn succ_head(u: T, v: T) -> Goal<TU, TE> { Goal::dynamic(Rc::new(Succ { u, v, mode: 1 })) }

#[test]
fn replay() {
    let p0: T = LTerm::from(0);
    let query = proto_vulcan_query!(|q| {
        |x, y, z| { q == p0, infdrange([x, y, z], &(0..=2)), x == y, ltefd(x, z) }
    });
    let _n = query.run().take(64).count();
}
