// Counterexample found by mirsym/z3 for property C10, template iso4_both_mid: q != p0, conde { |x| { q == [x, p1], x != p2 }, |x| { q == [p1, x], x == p3 }, false } with parameters [0, -2, 0, -3]: engine answer 0 is not a reference answer (or is returned too often): the ground instance q = [0, -2] is an instance of an engine answer but not a solution
// Replay: /verif/check C10 --replay /verif/replay/cases/C10-iso4_both_mid_spurious.rs
#![allow(unused_imports, unused_variables, unused_mut)]
use proto_vulcan::prelude::*;
use proto_vulcan::lterm::LTerm;
use proto_vulcan::operator::{anyo, cond, conda, condu, dfs, onceo};
use proto_vulcan::relation::{append, cons, distinct, empty, first, member, member1, permute, rember, rest};
type T = LTerm<DefaultUser, DefaultEngine<DefaultUser>>;

#[test]
fn replay() {
    let p0: T = LTerm::from(0);
    let p1: T = LTerm::from(-2);
    let p2: T = LTerm::from(0);
    let p3: T = LTerm::from(-3);
    let query = proto_vulcan_query!(|q| {
        q != p0,
        conde { |x| { q == [x, p1], x != p2 }, |x| { q == [p1, x], x == p3 }, false },
        q == [0, -2]
    });
    let n = query.run().take(64).count();
    assert_eq!(n > 0, false, "q = [0, -2] must not be a solution");
}
