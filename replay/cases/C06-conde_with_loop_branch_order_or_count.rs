// Counterexample found by mirsym/z3 for property C06, template conde_with_loop_branch: conde { loop { q == p0 }, q == p1 } with parameters [-2, 1]: engine answer 2 is not a reference answer (or is returned too often) (same ground instances; expected answers ['-2', '1'])
// Replay: /verif/check C06 --replay /verif/replay/cases/C06-conde_with_loop_branch_order_or_count.rs
#![allow(unused_imports, unused_variables, unused_mut)]
use proto_vulcan::prelude::*;
use proto_vulcan::lterm::LTerm;
use proto_vulcan::operator::{anyo, cond, conda, condu, dfs, onceo};
use proto_vulcan::relation::{append, cons, distinct, empty, first, member, member1, permute, rember, rest};
use proto_vulcan::operator::{matche, matcha, matchu};
use proto_vulcan::solver::{Solve, Solver};
use proto_vulcan::state::State;
use proto_vulcan::stream::Stream;
use std::rc::Rc;
type T = LTerm<DefaultUser, DefaultEngine<DefaultUser>>;
type TU = DefaultUser;
type TE = DefaultEngine<DefaultUser>;
#[derive(Debug)]
pub struct Succ { u: T, v: T, mode: usize }
impl Solve<TU, TE> for Succ {
    fn solve(&self, _solver: &Solver<TU, TE>, state: State<TU, TE>) -> Stream<TU, TE> {
        let n = if self.mode == 0 { self.u.get_number() } else { self.u.head().and_then(|h| h.get_number()) };
        match n {
            Some(n) => match state.unify(&LTerm::from(n + 1), &self.v) { Ok(st) => Stream::unit(Box::new(st)), Err(_) => Stream::empty() },
            None => Stream::empty(),
        }
    }
}
pub fn succ(u: T, v: T) -> Goal<TU, TE> { Goal::dynamic(Rc::new(Succ { u, v, mode: 0 })) }
pub fn succ_head(u: T, v: T) -> Goal<TU, TE> { Goal::dynamic(Rc::new(Succ { u, v, mode: 1 })) }

#[test]
fn replay() {
    let p0: T = LTerm::from(-2);
    let p1: T = LTerm::from(1);
    let query = proto_vulcan_query!(|q| {
        conde { loop { q == p0 }, q == p1 }
    });
    let re = |s: String| { let mut o = String::new(); let mut it = s.chars().peekable();
        while let Some(c) = it.next() { o.push(c); if c == '_' { if it.peek() == Some(&'.') { it.next(); while it.peek().map_or(false, |d| d.is_ascii_digit()) { it.next(); } } } } o };
    let mut got: Vec<String> = query.run().take(64).map(|r| re(format!("{}", *r.q))).collect();
    let mut expected: Vec<String> = vec!["-2".to_string(), "1".to_string()];
    got.sort();
    expected.sort();
    assert_eq!(got, expected);
}
