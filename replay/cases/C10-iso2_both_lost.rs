// Counterexample found by mirsym/z3 for property C10, template iso2_both: q != p0, conde { false, q == p1 } with parameters [-2, -3]: reference answer 0 is missing from the engine's answers: the ground instance q = -3 is a solution that no engine answer covers
// Replay: /verif/check C10 --replay /verif/replay/cases/C10-iso2_both_lost.rs
#![allow(unused_imports, unused_variables, unused_mut)]
use proto_vulcan::prelude::*;
use proto_vulcan::lterm::LTerm;
use proto_vulcan::operator::{anyo, cond, conda, condu, dfs, onceo};
use proto_vulcan::relation::{append, cons, distinct, empty, first, member, member1, permute, rember, rest};
type T = LTerm<DefaultUser, DefaultEngine<DefaultUser>>;

#[test]
fn replay() {
    let p0: T = LTerm::from(-2);
    let p1: T = LTerm::from(-3);
    let query = proto_vulcan_query!(|q| {
        q != p0,
        conde { false, q == p1 },
        q == -3
    });
    let n = query.run().take(64).count();
    assert_eq!(n > 0, true, "q = -3 must be a solution");
}
