// Counterexample found by mirsym/z3 for property C18: diff: Some(empty domain) on [('i', 2, 2), ('i', 2, 2)] (probe value 0)
// Replay: /verif/check C18 --replay /verif/replay/cases/C18-m_diff_i_i_diff_ome_empty_domain_.rs
use proto_vulcan::state::FiniteDomain;
use std::collections::BTreeSet;

fn set(d: &[isize]) -> BTreeSet<isize> { d.iter().cloned().collect() }
fn members(spec: &str, lo: isize, hi: isize, v: &[isize]) -> BTreeSet<isize> {
    if spec == "i" { (lo..=hi).collect() } else { set(v) }
}
fn raw(d: &Option<FiniteDomain>) -> BTreeSet<isize> {
    match d { None => BTreeSet::new(), Some(FiniteDomain::Interval(r)) => (*r.start()..=*r.end()).collect(), Some(FiniteDomain::Sparse(v)) => set(v) }
}

#[test]
fn replay() {
    let a = FiniteDomain::from(2..=2);
    let b = FiniteDomain::from(2..=2);
    let sa: BTreeSet<isize> = (2..=2).collect();
    let sb: BTreeSet<isize> = (2..=2).collect();
    let op = "diff";
    if op == "diff" {
        let r = a.diff(&b);
        assert_eq!(raw(&r), sa.difference(&sb).cloned().collect::<BTreeSet<_>>());
        if let Some(FiniteDomain::Sparse(v)) = &r { assert!(!v.is_empty()); }
    } else if op == "intersect" {
        let r = a.intersect(&b);
        assert_eq!(raw(&r), sa.intersection(&sb).cloned().collect::<BTreeSet<_>>());
    } else if op == "eq" {
        assert_eq!(a == b, sa == sb);
    } else if op == "disjoint" {
        assert_eq!(a.is_disjoint(&b), sa.is_disjoint(&sb));
    } else {
        let xs: Vec<isize> = a.iter().collect();
        assert_eq!(xs, sa.iter().cloned().collect::<Vec<_>>());
    }
}
