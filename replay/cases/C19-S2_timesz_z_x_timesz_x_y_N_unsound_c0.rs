// Counterexample found by mirsym/z3 for property C19: z==x ; timesz(x,y,N) succeeds although the equation of constraint 0 does not hold e.g. z == x, timesz(x, y, -3), y == 8, z == 0, x == 0
// Replay: /verif/check C19 --replay /verif/replay/cases/C19-S2_timesz_z_x_timesz_x_y_N_unsound_c0.rs   (runs this program natively against /repo)
use proto_vulcan::prelude::*;
#[allow(unused_imports)]
use proto_vulcan::relation::clpz::plusz::plusz;
#[allow(unused_imports)]
use proto_vulcan::relation::clpz::timesz::timesz;

#[test]
fn replay() {
    let query = proto_vulcan_query!(|q| {
        |x, y, z| {
            q == [x, y, z],
            z == x,
            timesz(x, y, -3),
            y == 8,
            z == 0,
            x == 0
        }
    });
    let expected: isize = 0; // -1: any number of answers, but no panic; -2: no unbound variable in any answer
    let mut n: isize = 0;
    for r in query.run() {
        n += 1;
        if expected == -2 {
            let shown = format!("{}", r.q);
            assert!(!shown.contains('_'), "answer {} leaves a determined operand unbound", shown);
        }
    }
    assert!(expected < 0 || n == expected, "number of answers {} (expected {})", n, expected);
}
