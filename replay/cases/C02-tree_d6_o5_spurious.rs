// Counterexample found by mirsym/z3 for property C02, template tree_d6_o5: |x, y| { q == [x, y], y == p2, x != p0, [x, y] != [p0, p1] } with parameters [0, -3, -3]: engine answer 0 is not a reference answer (or is returned too often): the ground instance q = [0, -3] is an instance of an engine answer but not a solution
// Replay: /verif/check C02 --replay /verif/replay/cases/C02-tree_d6_o5_spurious.rs
#![allow(unused_imports, unused_variables, unused_mut)]
use proto_vulcan::prelude::*;
use proto_vulcan::lterm::LTerm;
use proto_vulcan::operator::{anyo, cond, conda, condu, dfs, onceo};
use proto_vulcan::relation::{append, cons, distinct, empty, first, member, member1, permute, rember, rest};
type T = LTerm<DefaultUser, DefaultEngine<DefaultUser>>;

#[test]
fn replay() {
    let p0: T = LTerm::from(0);
    let p1: T = LTerm::from(-3);
    let p2: T = LTerm::from(-3);
    let query = proto_vulcan_query!(|q| {
        |x, y| { q == [x, y], y == p2, x != p0, [x, y] != [p0, p1] },
        q == [0, -3]
    });
    let n = query.run().take(64).count();
    assert_eq!(n > 0, false, "q = [0, -3] must not be a solution");
}
