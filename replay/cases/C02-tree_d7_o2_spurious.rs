// Counterexample found by mirsym/z3 for property C02, template tree_d7_o2: |x, y| { q == [x, y], conde { x == p0, y == p1 }, x != y, y == p2 } with parameters [-3, -3, -3]: engine answer 0 is not a reference answer (or is returned too often): the ground instance q = [-3, -3] is an instance of an engine answer but not a solution
// Replay: /verif/check C02 --replay /verif/replay/cases/C02-tree_d7_o2_spurious.rs
#![allow(unused_imports, unused_variables, unused_mut)]
use proto_vulcan::prelude::*;
use proto_vulcan::lterm::LTerm;
use proto_vulcan::operator::{anyo, cond, conda, condu, dfs, onceo};
use proto_vulcan::relation::{append, cons, distinct, empty, first, member, member1, permute, rember, rest};
type T = LTerm<DefaultUser, DefaultEngine<DefaultUser>>;

#[test]
fn replay() {
    let p0: T = LTerm::from(-3);
    let p1: T = LTerm::from(-3);
    let p2: T = LTerm::from(-3);
    let query = proto_vulcan_query!(|q| {
        |x, y| { q == [x, y], conde { x == p0, y == p1 }, x != y, y == p2 },
        q == [-3, -3]
    });
    let n = query.run().take(64).count();
    assert_eq!(n > 0, false, "q = [-3, -3] must not be a solution");
}
