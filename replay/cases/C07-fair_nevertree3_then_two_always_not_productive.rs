// Counterexample found by mirsym/z3 for property C07, template fair_nevertree3_then_two_always: conde { conde { conde { conde { never(), never() }, conde { never(), never() } }, conde { conde { never(), never() }, conde { never(), never() } } }, conde { [always(), q == p0], [always(), q == p1] } with parameters [0, 0]: the first 6 answers are not produced within 2000000 MIR steps (a fair interleaving produces them)
// Replay: /verif/check C07 --replay /verif/replay/cases/C07-fair_nevertree3_then_two_always_not_productive.rs
#![allow(unused_imports, unused_variables, unused_mut)]
use proto_vulcan::prelude::*;
use proto_vulcan::lterm::LTerm;
use proto_vulcan::operator::{anyo, cond, conda, condu, dfs, onceo};
use proto_vulcan::relation::{append, cons, distinct, empty, first, member, member1, permute, rember, rest};
use proto_vulcan::operator::{matche, matcha, matchu};
use proto_vulcan::relation::{diseqfd, distinctfd, infd, infdrange, ltefd, ltfd, minusfd, plusfd, timesfd};
use proto_vulcan::relation::clpz::plusz::plusz;
use proto_vulcan::relation::clpz::timesz::timesz;
use proto_vulcan::relation::always::always;
use proto_vulcan::relation::never::never;
use proto_vulcan::solver::{Solve, Solver};
use proto_vulcan::state::State;
use proto_vulcan::stream::Stream;
use std::rc::Rc;
type T = LTerm<DefaultUser, DefaultEngine<DefaultUser>>;
type TU = DefaultUser;
type TE = DefaultEngine<DefaultUser>;
#[derive(Debug)]
pub struct Succ { u: T, v: T, mode: usize }
impl Solve<TU, TE> for Succ {
    fn solve(&self, _solver: &Solver<TU, TE>, state: State<TU, TE>) -> Stream<TU, TE> {
        let n = if self.mode == 0 { self.u.get_number() } else { self.u.head().and_then(|h| h.get_number()) };
        match n {
            Some(n) => match state.unify(&LTerm::from(n + 1), &self.v) { Ok(st) => Stream::unit(Box::new(st)), Err(_) => Stream::empty() },
            None => Stream::empty(),
        }
    }
}
#[derive(Debug)]
pub struct SameVar { u: T, v: T, out: T }
impl Solve<TU, TE> for SameVar {
    fn solve(&self, _solver: &Solver<TU, TE>, state: State<TU, TE>) -> Stream<TU, TE> {
        let same = if self.u == self.v { 1 } else { 0 };
        match state.unify(&LTerm::from(same), &self.out) { Ok(st) => Stream::unit(Box::new(st)), Err(_) => Stream::empty() }
    }
}
pub fn samevar(u: T, v: T, out: T) -> Goal<TU, TE> { Goal::dynamic(Rc::new(SameVar { u, v, out })) }
pub fn succ(u: T, v: T) -> Goal<TU, TE> { Goal::dynamic(Rc::new(Succ { u, v, mode: 0 })) }
pub fn succ_head(u: T, v: T) -> Goal<TU, TE> { Goal::dynamic(Rc::new(Succ { u, v, mode: 1 })) }

/// `d` is introduced inside the closure body: d is one of lo, hi and one of a, b is d.
pub fn pick(a: T, b: T, lo: T, hi: T) -> Goal<TU, TE> {
    proto_vulcan_closure!(|d| {
        member(d, [lo, hi]),
        conde {
            a == d,
            b == d,
        }
    })
}

/// Silent diverger made of a recursive closure with a fresh variable (an endless chain of pauses).
pub fn nevero(x: T) -> Goal<TU, TE> {
    proto_vulcan_closure!(|y| { nevero(y) })
}

/// Silent diverger usable inside `dfs { }` as well: every recursion is wrapped in a closure, so every search step is finite.
pub fn spin<G: AnyGoal<TU, TE>>() -> proto_vulcan::goal::InferredGoal<TU, TE, G> {
    proto_vulcan_closure!([true, spin()])
}

/// User-defined operators over the crate's binary disjunction nodes (`operator::disj`), which the built-in syntax never builds.
pub fn dfsor(param: proto_vulcan::operator::OperatorParam<TU, TE, proto_vulcan::goal::DFSGoal<TU, TE>>) -> proto_vulcan::goal::DFSGoal<TU, TE> {
    proto_vulcan::operator::disj::DFSDisj::from_conjunctions(param.body)
}

pub fn bfsor(param: proto_vulcan::operator::OperatorParam<TU, TE, Goal<TU, TE>>) -> Goal<TU, TE> {
    proto_vulcan::operator::disj::Disj::from_conjunctions(param.body)
}

/// Rust-written goal using the mutable list API on its own clone of a bound term: out == walk(x) with `v` appended.
pub fn pusho(x: T, v: T, out: T) -> Goal<TU, TE> {
    proto_vulcan!(fngoal move |_solver, state| {
        let mut l: T = state.smap_ref().walk(&x).clone();
        l.extend(Some(v.clone()));
        match state.unify(&out, &l) {
            Ok(st) => Stream::unit(Box::new(st)),
            Err(_) => Stream::empty(),
        }
    })
}

/// The same goal value solved twice in a row.
pub fn twice(g: Goal<TU, TE>) -> Goal<TU, TE> {
    let g2 = g.clone();
    proto_vulcan!([g, g2])
}

const LIMIT: usize = 6;

#[test]
fn replay() {
    // watchdog: a run that does not finish within 30 s counts as a failure (non-productive search)
    let (tx, rx) = std::sync::mpsc::channel();
    std::thread::spawn(move || { body(); let _ = tx.send(()); });
    match rx.recv_timeout(std::time::Duration::from_secs(30)) {
        Ok(()) => (),
        Err(std::sync::mpsc::RecvTimeoutError::Timeout) => panic!("the query did not produce its first {} answers within 30 s", LIMIT),
        Err(_) => panic!("the query panicked"),
    }
}

fn body() {
    let p0: T = LTerm::from(0);
    let p1: T = LTerm::from(0);
    let query = proto_vulcan_query!(|q| {
        conde { conde { conde { conde { never(), never() }, conde { never(), never() } }, conde { conde { never(), never() }, conde { never(), never() } } }, conde { [always(), q == p0], [always(), q == p1] } }
    });
    let n = query.run().take(LIMIT).count();
    assert_eq!(n, LIMIT);
}
