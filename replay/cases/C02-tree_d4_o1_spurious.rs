// Counterexample found by mirsym/z3 for property C02, template tree_d4_o1: |x, y| { q == [x, y], y == p1, x != [p0, y] } with parameters [0, 0]: engine answer 0 is not a reference answer (or is returned too often): the ground instance q = [[0, 0], 0] is an instance of an engine answer but not a solution
// Replay: /verif/check C02 --replay /verif/replay/cases/C02-tree_d4_o1_spurious.rs
#![allow(unused_imports, unused_variables, unused_mut)]
use proto_vulcan::prelude::*;
use proto_vulcan::lterm::LTerm;
use proto_vulcan::operator::{anyo, cond, conda, condu, dfs, onceo};
use proto_vulcan::relation::{append, cons, distinct, empty, first, member, member1, permute, rember, rest};
type T = LTerm<DefaultUser, DefaultEngine<DefaultUser>>;

#[test]
fn replay() {
    let p0: T = LTerm::from(0);
    let p1: T = LTerm::from(0);
    let query = proto_vulcan_query!(|q| {
        |x, y| { q == [x, y], y == p1, x != [p0, y] },
        q == [[0, 0], 0]
    });
    let n = query.run().take(64).count();
    assert_eq!(n > 0, false, "q = [[0, 0], 0] must not be a solution");
}
