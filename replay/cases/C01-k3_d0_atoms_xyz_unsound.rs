// Counterexample found by mirsym/z3 for property C01: after success the two sides of an equation still differ under an instance of the answer e.g. x == y, 0 == 0, 0 == x, x == 0, y == [[] | 0], z == []
// Replay: /verif/check C01 --replay /verif/replay/cases/C01-k3_d0_atoms_xyz_unsound.rs   (runs this program natively against /repo)
use proto_vulcan::prelude::*;

#[test]
fn replay() {
    let query = proto_vulcan_query!(|q| {
        |x, y, z| {
            q == 0,
            x == y,
            0 == 0,
            0 == x,
            x == 0,
            y == [[] | 0],
            z == []
        }
    });
    let n = query.run().count() as isize;
    let expected: isize = 0; // -1: any number of answers, but no panic
    assert!(expected < 0 || n == expected, "number of answers {} (expected {})", n, expected);
}
