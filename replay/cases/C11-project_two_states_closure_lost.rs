// Counterexample found by mirsym/z3 for property C11, template project_two_states_closure: |x| { conde { x == p0, x == p1 }, closure { project |x| { succ(x, q) } } } with parameters [-3, -2]: reference answer 0 is missing from the engine's answers: the ground instance q = -2 is a solution that no engine answer covers
// Replay: /verif/check C11 --replay /verif/replay/cases/C11-project_two_states_closure_lost.rs
#![allow(unused_imports, unused_variables, unused_mut)]
use proto_vulcan::prelude::*;
use proto_vulcan::lterm::LTerm;
use proto_vulcan::operator::{anyo, cond, conda, condu, dfs, onceo};
use proto_vulcan::relation::{append, cons, distinct, empty, first, member, member1, permute, rember, rest};
use proto_vulcan::operator::{matche, matcha, matchu};
use proto_vulcan::solver::{Solve, Solver};
use proto_vulcan::state::State;
use proto_vulcan::stream::Stream;
use std::rc::Rc;
type T = LTerm<DefaultUser, DefaultEngine<DefaultUser>>;
type TU = DefaultUser;
type TE = DefaultEngine<DefaultUser>;
#[derive(Debug)]
pub struct Succ { u: T, v: T }
impl Solve<TU, TE> for Succ {
    fn solve(&self, _solver: &Solver<TU, TE>, state: State<TU, TE>) -> Stream<TU, TE> {
        match self.u.get_number() {
            Some(n) => match state.unify(&LTerm::from(n + 1), &self.v) { Ok(st) => Stream::unit(Box::new(st)), Err(_) => Stream::empty() },
            None => Stream::empty(),
        }
    }
}
pub fn succ(u: T, v: T) -> Goal<TU, TE> { Goal::dynamic(Rc::new(Succ { u, v })) }

#[test]
fn replay() {
    let p0: T = LTerm::from(-3);
    let p1: T = LTerm::from(-2);
    let query = proto_vulcan_query!(|q| {
        |x| { conde { x == p0, x == p1 }, closure { project |x| { succ(x, q) } } },
        q == -2
    });
    let n = query.run().take(64).count();
    assert_eq!(n > 0, true, "q = -2 must be a solution");
}
