// Counterexample found by mirsym/z3 for property C01: after success the two sides of an equation still differ under an instance of the answer e.g. [x] == [y | x], x == [], y == [0]
// Replay: /verif/check C01 --replay /verif/replay/cases/C01-k1_d2_lists_xy_unsound.rs   (runs this program natively against /repo)
use proto_vulcan::prelude::*;

#[test]
fn replay() {
    let query = proto_vulcan_query!(|q| {
        |x, y| {
            q == 0,
            [x] == [y | x],
            x == [],
            y == [0]
        }
    });
    let n = query.run().count() as isize;
    let expected: isize = 0; // -1: any number of answers, but no panic
    assert!(expected < 0 || n == expected, "number of answers {} (expected {})", n, expected);
}
