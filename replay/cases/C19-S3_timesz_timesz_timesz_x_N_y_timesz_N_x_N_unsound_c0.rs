// Counterexample found by mirsym/z3 for property C19: timesz(x,N,y) ; timesz(N,x,N) succeeds although the equation of constraint 0 does not hold e.g. timesz(x, -4, y), timesz(0, x, 0), y == -5, x == 1
// Replay: /verif/check C19 --replay /verif/replay/cases/C19-S3_timesz_timesz_timesz_x_N_y_timesz_N_x_N_unsound_c0.rs   (runs this program natively against /repo)
use proto_vulcan::prelude::*;
#[allow(unused_imports)]
use proto_vulcan::relation::clpz::plusz::plusz;
#[allow(unused_imports)]
use proto_vulcan::relation::clpz::timesz::timesz;

#[test]
fn replay() {
    let query = proto_vulcan_query!(|q| {
        |x, y| {
            q == [x, y],
            timesz(x, -4, y),
            timesz(0, x, 0),
            y == -5,
            x == 1
        }
    });
    let expected: isize = 0; // -1: any number of answers, but no panic; -2: no unbound variable in any answer
    let mut n: isize = 0;
    for r in query.run() {
        n += 1;
        if expected == -2 {
            let shown = format!("{}", r.q);
            assert!(!shown.contains('_'), "answer {} leaves a determined operand unbound", shown);
        }
    }
    assert!(expected < 0 || n == expected, "number of answers {} (expected {})", n, expected);
}
