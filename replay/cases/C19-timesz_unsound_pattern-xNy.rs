// Counterexample found by mirsym/z3 for property C19: timesz(xNy) succeeds although the equation does not hold
// Replay: /verif/check C19 --replay /verif/replay/cases/C19-timesz_unsound_pattern-xNy.rs   (runs this program natively against /repo)
use proto_vulcan::prelude::*;
use proto_vulcan::relation::clpz::plusz::plusz;
use proto_vulcan::relation::clpz::timesz::timesz;

#[test]
#[allow(unused_imports)]
fn replay() {
    let query = proto_vulcan_query!(|q| {
        |x, y| {
            timesz(x, 2, y),
            y == 1,
            x == 0,
            q == [x, y]
        }
    });
    let n = query.run().count() as isize;
    let expected: isize = 0; // -1: any number of answers, but no panic
    assert!(expected < 0 || n == expected, "number of answers {} (expected {})", n, expected);
}
