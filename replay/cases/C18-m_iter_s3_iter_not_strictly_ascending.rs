// Counterexample found by mirsym/z3 for property C18: iter: not strictly ascending on [('s', [1, 0, 1]), ('s', [0])] (probe value 0)
// Replay: /verif/check C18 --replay /verif/replay/cases/C18-m_iter_s3_iter_not_strictly_ascending.rs
use proto_vulcan::state::FiniteDomain;
use std::collections::BTreeSet;

fn set(d: &[isize]) -> BTreeSet<isize> { d.iter().cloned().collect() }
fn members(spec: &str, lo: isize, hi: isize, v: &[isize]) -> BTreeSet<isize> {
    if spec == "i" { (lo..=hi).collect() } else { set(v) }
}
fn raw(d: &Option<FiniteDomain>) -> BTreeSet<isize> {
    match d { None => BTreeSet::new(), Some(FiniteDomain::Interval(r)) => (*r.start()..=*r.end()).collect(), Some(FiniteDomain::Sparse(v)) => set(v) }
}

#[test]
fn replay() {
    let a = FiniteDomain::from(vec![1, 0, 1]);
    let b = FiniteDomain::from(vec![0]);
    let sa: BTreeSet<isize> = set(&[1, 0, 1]);
    let sb: BTreeSet<isize> = set(&[0]);
    let op = "iter";
    if op == "diff" {
        let r = a.diff(&b);
        assert_eq!(raw(&r), sa.difference(&sb).cloned().collect::<BTreeSet<_>>());
        if let Some(FiniteDomain::Sparse(v)) = &r { assert!(!v.is_empty()); }
    } else if op == "intersect" {
        let r = a.intersect(&b);
        assert_eq!(raw(&r), sa.intersection(&sb).cloned().collect::<BTreeSet<_>>());
    } else if op == "eq" {
        assert_eq!(a == b, sa == sb);
    } else if op == "disjoint" {
        assert_eq!(a.is_disjoint(&b), sa.is_disjoint(&sb));
    } else {
        let xs: Vec<isize> = a.iter().collect();
        assert_eq!(xs, sa.iter().cloned().collect::<Vec<_>>());
    }
}
