// Counterexample found by mirsym/z3 for property C21: `[0 | 0] == [0, 0]` is True but the terms are not structurally equal
// Replay: /verif/check C21 --replay /verif/replay/cases/C21-eq_d2_lists_eq_swapped.rs
use proto_vulcan::prelude::*;
use std::collections::hash_map::DefaultHasher;
use std::hash::{Hash, Hasher};
type T = LTerm<DefaultUser, DefaultEngine<DefaultUser>>;
fn h(t: &T) -> u64 { let mut s = DefaultHasher::new(); t.hash(&mut s); s.finish() }
fn elems(t: &T) -> Vec<T> {
    // element sequence by plain structural recursion (independent of LTermIter)
    let mut out = vec![]; let mut cur = t.clone();
    loop {
        let next = match (cur.head(), cur.tail()) { (Some(hd), Some(tl)) => { out.push(hd.clone()); tl.clone() } _ => break };
        cur = next;
    }
    if !cur.is_empty() { out.push(cur); }
    out
}

#[test]
fn replay() {
    let x: T = LTerm::var("x");
    let a: T = lterm!([0 | 0]);
    let b: T = lterm!([0, 0]);
    assert_eq!(a == b, false, "structural equality of {} and {}", a, b);
}
