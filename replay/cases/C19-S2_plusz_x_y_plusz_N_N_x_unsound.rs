// Counterexample found by mirsym/z3 for property C19: x==y ; plusz(N,N,x) succeeds although the equations do not hold e.g. x == y, plusz(8, -12, x), x == -4, y == 0
// Replay: /verif/check C19 --replay /verif/replay/cases/C19-S2_plusz_x_y_plusz_N_N_x_unsound.rs   (runs this program natively against /repo)
use proto_vulcan::prelude::*;
#[allow(unused_imports)]
use proto_vulcan::relation::clpz::plusz::plusz;
#[allow(unused_imports)]
use proto_vulcan::relation::clpz::timesz::timesz;

#[test]
fn replay() {
    let query = proto_vulcan_query!(|q| {
        |x, y| {
            x == y,
            plusz(8, -12, x),
            x == -4,
            y == 0,
            q == [x, y]
        }
    });
    let n = query.run().count() as isize;
    let expected: isize = 0; // -1: any number of answers, but no panic
    assert!(expected < 0 || n == expected, "number of answers {} (expected {})", n, expected);
}
