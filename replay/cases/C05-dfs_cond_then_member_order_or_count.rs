// Counterexample found by mirsym/z3 for property C05, template dfs_cond_then_member: |x, y| { dfs { cond { x == p0, x == p1 }, member(y, [p2, p3]), x != y, q == [x, y] } } with parameters [-1, 1, -1, 1]: answer 0 differs (same ground instances; expected answers ['[-1, 1]', '[1, -1]'])
// Replay: /verif/check C05 --replay /verif/replay/cases/C05-dfs_cond_then_member_order_or_count.rs
#![allow(unused_imports, unused_variables, unused_mut)]
use proto_vulcan::prelude::*;
use proto_vulcan::lterm::LTerm;
use proto_vulcan::operator::{anyo, cond, conda, condu, dfs, onceo};
use proto_vulcan::relation::{append, cons, distinct, empty, first, member, member1, permute, rember, rest};
type T = LTerm<DefaultUser, DefaultEngine<DefaultUser>>;

#[test]
fn replay() {
    let p0: T = LTerm::from(-1);
    let p1: T = LTerm::from(1);
    let p2: T = LTerm::from(-1);
    let p3: T = LTerm::from(1);
    let query = proto_vulcan_query!(|q| {
        |x, y| { dfs { cond { x == p0, x == p1 }, member(y, [p2, p3]), x != y, q == [x, y] } }
    });
    let re = |s: String| { let mut o = String::new(); let mut it = s.chars().peekable();
        while let Some(c) = it.next() { o.push(c); if c == '_' { if it.peek() == Some(&'.') { it.next(); while it.peek().map_or(false, |d| d.is_ascii_digit()) { it.next(); } } } } o };
    let mut got: Vec<String> = query.run().take(64).map(|r| re(format!("{}", *r.q))).collect();
    let mut expected: Vec<String> = vec!["[-1, 1]".to_string(), "[1, -1]".to_string()];
    assert_eq!(got, expected);
}
