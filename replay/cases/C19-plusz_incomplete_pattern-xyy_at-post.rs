// Counterexample found by mirsym/z3 for property C19: plusz(xyy) fails (post) although the equation holds
// Replay: /verif/check C19 --replay /verif/replay/cases/C19-plusz_incomplete_pattern-xyy_at-post.rs   (runs this program natively against /repo)
use proto_vulcan::prelude::*;
use proto_vulcan::relation::clpz::plusz::plusz;
use proto_vulcan::relation::clpz::timesz::timesz;

#[test]
#[allow(unused_imports)]
fn replay() {
    let query = proto_vulcan_query!(|q| {
        |x, y| {
            plusz(x, y, y),
            x == 0,
            y == -99,
            q == [x, y]
        }
    });
    let n = query.run().count() as isize;
    let expected: isize = 1; // -1: any number of answers, but no panic
    assert!(expected < 0 || n == expected, "number of answers {} (expected {})", n, expected);
}
