// Counterexample found by mirsym/z3 for property C19: timesz panics: attempt to divide by zero
// Replay: /verif/check C19 --replay /verif/replay/cases/C19-timesz_panic_attempt_to_divide_by_zero.rs   (runs this program natively against /repo)
use proto_vulcan::prelude::*;
use proto_vulcan::relation::clpz::plusz::plusz;
use proto_vulcan::relation::clpz::timesz::timesz;

#[test]
#[allow(unused_imports)]
fn replay() {
    let query = proto_vulcan_query!(|q| {
        |x| {
            timesz(0, x, -3),
            q == [x]
        }
    });
    let n = query.run().count() as isize;
    let expected: isize = -1; // -1: any number of answers, but no panic
    assert!(expected < 0 || n == expected, "number of answers {} (expected {})", n, expected);
}
