// Counterexample found by mirsym/z3 for property C19: plusz(xxN) succeeds although the equation does not hold
// Replay: /verif/check C19 --replay /verif/replay/cases/C19-plusz_unsound_pattern-xxN.rs   (runs this program natively against /repo)
use proto_vulcan::prelude::*;
use proto_vulcan::relation::clpz::plusz::plusz;
use proto_vulcan::relation::clpz::timesz::timesz;

#[test]
#[allow(unused_imports)]
fn replay() {
    let query = proto_vulcan_query!(|q| {
        |x| {
            plusz(x, x, 4),
            x == -2,
            q == [x]
        }
    });
    let n = query.run().count() as isize;
    let expected: isize = 0; // -1: any number of answers, but no panic
    assert!(expected < 0 || n == expected, "number of answers {} (expected {})", n, expected);
}
