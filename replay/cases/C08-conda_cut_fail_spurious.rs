// Counterexample found by mirsym/z3 for property C08, template conda_cut_fail: |x| { x == p0, conda { [x == p1, false], q == p2 }, q == x } with parameters [-3, -3, -3]: engine answer 0 is not a reference answer (or is returned too often): the ground instance q = -3 is an instance of an engine answer but not a solution
// Replay: /verif/check C08 --replay /verif/replay/cases/C08-conda_cut_fail_spurious.rs
#![allow(unused_imports, unused_variables, unused_mut)]
use proto_vulcan::prelude::*;
use proto_vulcan::lterm::LTerm;
use proto_vulcan::operator::{anyo, cond, conda, condu, dfs, onceo};
use proto_vulcan::relation::{append, cons, distinct, empty, first, member, member1, permute, rember, rest};
type T = LTerm<DefaultUser, DefaultEngine<DefaultUser>>;

#[test]
fn replay() {
    let p0: T = LTerm::from(-3);
    let p1: T = LTerm::from(-3);
    let p2: T = LTerm::from(-3);
    let query = proto_vulcan_query!(|q| {
        |x| { x == p0, conda { [x == p1, false], q == p2 }, q == x },
        q == -3
    });
    let n = query.run().take(64).count();
    assert_eq!(n > 0, false, "q = -3 must not be a solution");
}
