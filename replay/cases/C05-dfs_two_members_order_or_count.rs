// Counterexample found by mirsym/z3 for property C05, template dfs_two_members: |x, y| { dfs { member(x, [p0, p1, p2]), member(y, [p3, p4, p5]), q == [x, y] } } with parameters [2, -3, -3, -3, -3, -3]: answer 2 differs (same ground instances; expected answers ['[2, -3]', '[2, -3]', '[2, -3]', '[-3, -3]', '[-3, -3]', '[-3, -3]', '[-3, -3]', '[-3, -3]', '[-3, -3]'])
// Replay: /verif/check C05 --replay /verif/replay/cases/C05-dfs_two_members_order_or_count.rs
#![allow(unused_imports, unused_variables, unused_mut)]
use proto_vulcan::prelude::*;
use proto_vulcan::lterm::LTerm;
use proto_vulcan::operator::{anyo, cond, conda, condu, dfs, onceo};
use proto_vulcan::relation::{append, cons, distinct, empty, first, member, member1, permute, rember, rest};
type T = LTerm<DefaultUser, DefaultEngine<DefaultUser>>;

#[test]
fn replay() {
    let p0: T = LTerm::from(2);
    let p1: T = LTerm::from(-3);
    let p2: T = LTerm::from(-3);
    let p3: T = LTerm::from(-3);
    let p4: T = LTerm::from(-3);
    let p5: T = LTerm::from(-3);
    let query = proto_vulcan_query!(|q| {
        |x, y| { dfs { member(x, [p0, p1, p2]), member(y, [p3, p4, p5]), q == [x, y] } }
    });
    let re = |s: String| { let mut o = String::new(); let mut it = s.chars().peekable();
        while let Some(c) = it.next() { o.push(c); if c == '_' { if it.peek() == Some(&'.') { it.next(); while it.peek().map_or(false, |d| d.is_ascii_digit()) { it.next(); } } } } o };
    let mut got: Vec<String> = query.run().take(64).map(|r| re(format!("{}", *r.q))).collect();
    let mut expected: Vec<String> = vec!["[2, -3]".to_string(), "[2, -3]".to_string(), "[2, -3]".to_string(), "[-3, -3]".to_string(), "[-3, -3]".to_string(), "[-3, -3]".to_string(), "[-3, -3]".to_string(), "[-3, -3]".to_string(), "[-3, -3]".to_string()];
    assert_eq!(got, expected);
}
