// Counterexample found by mirsym/z3 for property C08, template onceo_conj_filter: |x, y| { q == [x, y], onceo { [dfs { member(x, [p0, p1]) }, dfs { member(y, [p1, p2]) }, x != y] } } with parameters [1, -1, -1]: engine answer 1 is not a reference answer (or is returned too often) (same ground instances; expected answers ['[1, -1]'])
// Replay: /verif/check C08 --replay /verif/replay/cases/C08-onceo_conj_filter_order_or_count.rs
#![allow(unused_imports, unused_variables, unused_mut)]
use proto_vulcan::prelude::*;
use proto_vulcan::lterm::LTerm;
use proto_vulcan::operator::{anyo, cond, conda, condu, dfs, onceo};
use proto_vulcan::relation::{append, cons, distinct, empty, first, member, member1, permute, rember, rest};
type T = LTerm<DefaultUser, DefaultEngine<DefaultUser>>;

#[test]
fn replay() {
    let p0: T = LTerm::from(1);
    let p1: T = LTerm::from(-1);
    let p2: T = LTerm::from(-1);
    let query = proto_vulcan_query!(|q| {
        |x, y| { q == [x, y], onceo { [dfs { member(x, [p0, p1]) }, dfs { member(y, [p1, p2]) }, x != y] } }
    });
    let re = |s: String| { let mut o = String::new(); let mut it = s.chars().peekable();
        while let Some(c) = it.next() { o.push(c); if c == '_' { if it.peek() == Some(&'.') { it.next(); while it.peek().map_or(false, |d| d.is_ascii_digit()) { it.next(); } } } } o };
    let mut got: Vec<String> = query.run().take(64).map(|r| re(format!("{}", *r.q))).collect();
    let mut expected: Vec<String> = vec!["[1, -1]".to_string()];
    got.sort();
    expected.sort();
    assert_eq!(got, expected);
}
