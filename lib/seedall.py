#!/usr/bin/env python3
"""Run every seeded mutation of /verif/seeded against the quick check of its property and record the outcome
in /verif/seeded/<id>/meta.json (`checks` section).  /repo is restored after each run (seedtest.sh).
usage: seedall.py [seed-dir ...]      (default: all)   env SEED_TIER=quick|thorough
"""
import json
import os
import re
import subprocess
import sys
import time

SEEDED = '/verif/seeded'

NEEDS = {
    'C01-m1': 'a prior var-var unification that made the left variable the key of an alias (x == y), then a unification with that aliased variable on the left of `==`',
    'C01-m2': 'a compound (tuple/#[compound]) term on the non-variable side and an occurs-check violation through that compound',
    'C02-m1': 'a disequality decomposing into >= 2 pairs that share a variable ([x, x] != [y, 5]) posted before the equalities that make the pairs jointly inconsistent',
    'C02-m2': 'a disequality between a variable that stays free and a compound term containing a variable that is bound elsewhere',
    'C03-m1': 'a reported disequality whose right-hand side is a structured term with a variable nested inside (x != [1, y], x unbound at the end)',
    'C03-m2': 'an answer list containing a nested list that is not the first element of its enclosing list, with variables to reify inside',
    'C05-m1': 'a dfs conjunction whose first goal yields >= 2 answers and whose second goal does not mature in one step',
    'C05-m2': 'a bracketed conjunction [g1, g2] with >= 2 multi-answer goals written directly as a clause of a dfs body',
    'C06-m1': 'an interleaving conde with >= 3 branches where a branch at index >= 2 is a literal false / fail()',
    'C06-m2': 'a loop/anyo body with two or more top-level comma-separated clauses',
    'C08-m1': 'a non-last conda/matcha arm whose head succeeds and whose rest contains a literal false',
    'C08-m2': 'an onceo body of at least two goals where the first answer of the first goal is not the first answer of the conjunction',
    'C10-m1': 'a conde/match clause that statically fails (literal false) placed before another clause',
    'C10-m2': 'an mplus whose left operand is a mature Cons with a delayed tail (conde whose first clause succeeds immediately)',
    'C11-m1': 'a projected variable bound to a structured term containing a variable that is bound elsewhere in the substitution',
    'C11-m2': 'a project goal inside closure { } reached by at least two states',
    'C12-m1': 'a for-loop over a collection with zero elements',
    'C12-m2': 'a for-loop over an LTerm list one of whose elements is exactly []',
    'C16-m1': 'distinctfd members that become bound in non-ascending order with the later duplicate not yet pruned',
    'C16-m2': 'ltefd/ltfd whose left operand is a variable aliased to another variable by == and whose right operand is a number',
    'C17-m1': 'an ltefd whose two operands are both numbers and equal the first time the constraint runs',
    'C17-m2': 'a timesfd whose second factor is exactly 0 while the first still has >= 2 values (OBSOLETE: the mutated code was rewritten by fix 600fe65)',
    'C18-m1': 'a FiniteDomain comparison whose left operand is a strict superset of the right one',
    'C18-m2': 'a domain built through the slice conversion from values that are not in ascending order',
    'C19-m1': 'a plusz whose sum operand is the non-representative member of a var-var alias',
    'C19-m2': 'a constraint suspended on r, then r grounded through the second-factor branch of timesz',
    'C20-m1': 'a #[compound] struct with an Option<Compound> field that is Some on one side and None on the other',
    'C20-m2': 'a 2-tuple term in an answer whose second component is a non-atomic term containing a variable',
    'C21-m1': 'comparing a proper list with an improper list with the same flattened element sequence',
    'C21-m2': 'a list containing [] as an element before the last position, then iter/index/contains on it',
    'C22-m1': 'a nested constraint pass in which a constraint removes itself while the outer snapshot is still being run (FD propagation to a singleton)',
    'C22-m2': 'a successful unification that adds no new binding',
    'C23-m1': 'an FD constraint still stored at reification whose operand variable was unified with another variable',
    'C23-m2': 'plusz in subtraction mode (first and third operands ground, second unbound) with a stored != on the second operand and no later unification before reification',
    'C04-m1': 'a disequality whose pairs share a variable, posted before the equality that breaks the chain, then binding the variable to the spuriously excluded value',
    'C04-m2': 'a variable (or two unified variables) that receives a sparse domain with holes first and then an interval inside its bounds containing a hole value',
    'C07-m1': 'a silent diverger built from a recursive closure of the shape fresh + one call (endless chain of pure pauses) in any branch of a conde',
    'C07-m2': 'a disjunction with a dfs { } branch containing a silently diverging goal',
    'C09-m1': 'a dfs { } block containing a cond whose left stream is an endless fruitless branch, with answers wanted from elsewhere',
    'C09-m2': 'a strictly stronger disequality added after a weaker stored one with at least one other constraint in the store (HashSet::drain left early)',
    'C13-m1': 'match keyword form where a pattern variable has the same name as a variable in the matched term',
    'C13-m2': 'matcha with two or more arms/alternatives that unify with the term',
    'C14-m1': 'an improper-list literal directly in the tail position of another list literal with a non-list innermost tail',
    'C14-m2': 'the literal false as a direct un-bracketed element of an operator body (conde { false, .. }, loop { false })',
    'C15-m1': 'shadowing between the matched term and a pattern variable (match / matche / matcha / matchu)',
    'C15-m2': 'one closure goal VALUE solved at least twice on one conjunction path whose body binds a fresh variable',
    'C24-m1': 'distinct on a list of length >= 3 with a duplicate pair (i, j), i odd (0-based)',
    'C24-m2': 'append whose second argument can unify with [] and more than the first answer consumed, or a first argument that is not a proper ground list',
    'own-C07-unfair-mplus': 'any disjunction whose first branch is infinite or silently diverging',
    'own-C09-order-dependent-run-constraints': 'two stored constraints whose relative iteration order in the HashSet differs between runs',
}


def needs_from_notes(d):
    """first paragraph of agent_notes.txt that says what the mutation needs in order to manifest"""
    p = os.path.join(d, 'agent_notes.txt')
    if not os.path.exists(p):
        return None
    lines = open(p, errors='replace').read().split('\n')
    for i, l in enumerate(lines):
        if re.search(r'(?i)\b(needs?|needed|trigger|manifest)', l) and not re.search(r'(?i)watchdog', l):
            para = [l.strip()]
            for m in lines[i + 1:i + 6]:
                if not m.strip():
                    break
                para.append(m.strip())
            txt = ' '.join(para)
            if len(txt) > 40:
                return txt[:400]
    return None


def main():
    tier = os.environ.get('SEED_TIER', 'quick')
    seeds = sys.argv[1:] or sorted(d for d in os.listdir(SEEDED) if os.path.isdir(os.path.join(SEEDED, d)))
    head = subprocess.run(['git', '-C', '/repo', 'rev-parse', '--short', 'HEAD'], capture_output=True, text=True).stdout.strip()
    for s in seeds:
        d = os.path.join(SEEDED, s)
        prop = re.search(r'C\d\d', s).group(0)
        patch = 'patch_adapted_to_fixed_tree.diff' if os.path.exists(os.path.join(d, 'patch_adapted_to_fixed_tree.diff')) else 'patch.diff'
        t0 = time.time()
        p = subprocess.run(['/verif/lib/seedtest.sh', s, prop, patch], capture_output=True, text=True, env=dict(os.environ, SEED_TIER=tier))
        out = p.stdout.strip()
        first = re.search(r'^VIOLATION[^\n]*', out, re.M)
        verdict = {0: 'missed', 1: 'caught', 2: 'check broken', 3: 'repo dirty', 4: 'patch does not apply'}.get(p.returncode, 'rc=%d' % p.returncode)
        metap = os.path.join(d, 'meta.json')
        meta = json.load(open(metap)) if os.path.exists(metap) else {}
        meta.update({
            'id': s, 'property': prop, 'patch': patch,
            'origin': 'own' if s.startswith('own') else 'sub-agent given only the property text and a scratch worktree',
            'needs_to_manifest': NEEDS.get(s) or needs_from_notes(d) or meta.get('needs_to_manifest', 'see agent_notes.txt'),
            'demonstration': 'demo.rs' if os.path.exists(os.path.join(d, 'demo.rs')) else None,
        })
        meta.setdefault('checks', {})[tier] = {
            'command': '/verif/check %s --tier %s (patch applied to /repo at %s, evidence redirected, /repo restored afterwards)' % (prop, tier, head),
            'verdict': verdict, 'exit': p.returncode, 'wall_s': round(time.time() - t0, 1),
            'first_violation': first.group(0)[:300] if first else None,
        }
        json.dump(meta, open(metap, 'w'), indent=1)
        print('%-45s %-6s %-22s %6.1fs' % (s, prop, verdict, time.time() - t0), flush=True)


if __name__ == '__main__':
    main()
