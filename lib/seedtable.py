#!/usr/bin/env python3
"""Print a markdown table of /verif/seeded/*/meta.json (seed, what it needs, verdict of the last recorded run)."""
import glob
import json
import os
import re

rows = []
for p in sorted(glob.glob('/verif/seeded/*/meta.json')):
    m = json.load(open(p))
    q = (m.get('checks') or {}).get('quick') or {}
    fv = q.get('first_violation') or ''
    t = re.search(r'cases/(.*?)\.rs', fv)
    rows.append('| %s | %s | %s | %s |' % (m['id'], m.get('needs_to_manifest', '').replace('|', '\\|')[:150], q.get('verdict', 'not run'), (t.group(1) if t else '')[:60]))
print('| seed | needs | quick check | first replay case |\n|---|---|---|---|')
print('\n'.join(rows))
