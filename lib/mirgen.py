"""Regenerates the MIR dump of /repo's current working tree (nightly rustc, -Zunpretty=mir).

The build output lives in /verif/work (git-ignored); the lib crate itself is recompiled on every
call (a fresh `--cfg` nonce defeats cargo's freshness check), so the dump always reflects the
sources as they are now.  /repo is not written to.
"""
import os
import subprocess
import time

from common import log, REPO, VERIF

WORK = os.path.join(VERIF, 'work')


def dump_mir(src=REPO, tag='lib', extra_features=None):
    os.makedirs(WORK, exist_ok=True)
    out = os.path.join(WORK, 'mir-%s-%d.mir' % (tag, os.getpid()))
    nonce = 'mirsym_nonce_%d_%d' % (os.getpid(), int(time.time() * 1000))
    env = dict(os.environ, CARGO_NET_OFFLINE='true', CARGO_TARGET_DIR=os.path.join(WORK, 'mirtarget-' + tag),
               RUSTFLAGS='')
    cmd = ['cargo', '+nightly', 'rustc', '--offline', '--lib']
    if extra_features:
        cmd += ['--features', extra_features]
    cmd += ['--', '-Zunpretty=mir', '-C', 'debug-assertions=off', '-C', 'overflow-checks=on',
            '--cfg', nonce, '-A', 'unexpected_cfgs', '-A', 'warnings']
    t0 = time.time()
    with open(out, 'w') as f:
        p = subprocess.run(cmd, cwd=src, env=env, stdout=f, stderr=subprocess.PIPE, text=True)
    if p.returncode != 0 or os.path.getsize(out) < 1000:
        raise RuntimeError('MIR dump failed: ' + p.stderr[-3000:])
    log('[mirgen] dumped %s MIR in %.1fs (%d bytes)' % (tag, time.time() - t0, os.path.getsize(out)))
    return out
