#!/usr/bin/env python3
"""Regenerates /verif/MANIFEST.json from the table below (single source of truth)."""
import json

CLAIMED = {
    'C18': dict(
        level='model_checking',
        text='Bounded model checking of the compiled fd.rs with Kani/CBMC: for every operation of FiniteDomain the '
             'result is compared with the set-theoretic result for ALL operand values within the bound (symbolic interval '
             'bounds, symbolic elements of sparse vectors of length 1..3, symbolic probe value), unwinding assertions on. '
             'This is the right level because the state space is flat integer data and the interesting inputs (duplicates, '
             'extreme bounds, subset/superset pairs) are rare; the solver covers all of them inside the window. diff, ==, intersect, '
             'is_disjoint and iter are decided a second time by symbolic execution of the MIR of fd.rs (engine M, props/c18m.py) for every pair '
             'of operand shapes (interval with symbolic bounds; sparse built by the real From<Vec> from 1..3 symbolic unsorted elements).',
        note='Trusted: Kani 0.68 codegen, CBMC 6.11, CaDiCaL; every counterexample is replayed against a native build of the '
             'real library (dev and release) before it is reported. Bound: windows of 9 consecutive values at -4, isize::MIN and '
             'isize::MAX-8 (quick: centre window only), sparse length <= 3, full isize range for loop-free interval operations. '
             'diff / == on mixed representations / sparse-sparse intersect are outside the Kani part (CBMC does not finish them) and are covered '
             'by the MIR part: window |v| <= 2 (quick) / 4 (thorough), sparse operands of 1..3 (thorough 4) elements.',
        technique='bounded model checking of compiled Rust (Kani -> CBMC -> SAT) plus symbolic execution of rustc MIR with z3; symbolic inputs, membership oracle',
        engine='kani',
        design='DESIGN.md §3 C18'),
}

NA = {
}

MIRSYM_NOTE = ('Trusted: the mirsym executor (own MIR interpreter; Rc = shared heap cell, Box by value with pointer-copy aliasing, raw-pointer writes) and its models of std '
               '(HashMap/HashSet as association lists iterated in insertion order - FD and determinism templates are re-run with every iteration reversed / rotated -, key equality through the crate\'s own PartialEq; Vec; Option/Result; '
               'iterator adaptors; integer semantics with overflow checks), z3 5.1, the nightly MIR dump regenerated from /repo on every run. '
               'Every counterexample is replayed as a native Rust test against the real library before it is reported; a model that does not '
               'reproduce is exit 2, never a VIOLATION. ')

PROG_TEXT = ('Whole programs written with the real macros are compiled into a generated template crate; the MIR of the library and of the templates is '
             'executed symbolically (integer parameters are solver variables, every feasible equality pattern between them is a path). On every path the '
             'answers of the real engine are compared with an independent reference interpreter: terms up to renaming, attached disequalities up to logical '
             'equivalence over all ground instances (z3 algebraic datatype). Bounded by the listed templates and the parameter window; not a proof. ')


def prog_claim(what, design):
    return dict(level='other', text=PROG_TEXT + what,
                note=MIRSYM_NOTE + 'Bound: the templates of props/tmpl.py and the generated programs (seeded by VERIF_SEED) listed in the evidence, parameters |p| <= 3 (quick) / 4 (thorough), U = DefaultUser (C22: a counting User), E = StreamEngine.',
                technique='symbolic execution of rustc MIR of whole programs (own executor + z3) against a reference interpreter; native replay',
                engine='mirsym', design=design)


CLAIMED['C19'] = dict(
    level='other',
    text='Symbolic execution of the MIR of the real plusz/timesz relations (constructor, Solve::solve, Constraint::run) and of '
         'State::unify/run_constraints with z3 deciding ALL integer values inside a window: program skeletons with one or two '
         'constraints, every operand kind/aliasing pattern, optional variable-variable unification before/after posting, every '
         'binding order and every binding prefix. Per feasible path the solver checks: success => every equation holds on the '
         'answer; failure => the equations have no solution; no panic; an operand determined by the other two is bound in the answer.',
    note=MIRSYM_NOTE + 'Bound: window |n|<=12 (plusz) / |n|<=4 (timesz) quick, 100 / 12 thorough; <= 3 variables; <= 2 constraints. Outside: interaction with CLP(FD) domains, longer chains.',
    technique='symbolic execution of rustc MIR (own executor) with z3 deciding all integer inputs per path; native replay of models',
    engine='mirsym', design='DESIGN.md §3 C19')

CLAIMED['C01'] = dict(
    level='other',
    text='Symbolic execution of the MIR of State::unify / unify_rec / unify_rec_compound / SMap::{walk, occurs_check, extend} on lazily initialised symbolic '
         'terms (the shape of a term is chosen only where the code inspects it; numbers are solver variables) for 1..3 sequential equations. Per path z3 decides, '
         'quantifying over ALL ground substitutions as values of an algebraic datatype: failure => no unifier exists; success => the bindings are acyclic, '
         'every instance of them solves the equations (sound) and every unifier is an instance of them (most general).',
    note=MIRSYM_NOTE + 'Bound: term depth <= 2, <= 3 variables, <= 3 equations, leaves: numbers, [], booleans, two strings; proper/improper lists and the crate\'s tuple compound; a template part adds unification / occurs check through #[compound] structs, Option fields and lists stored in compound fields. User terms are outside.',
    technique='symbolic execution of rustc MIR with lazy initialisation of term inputs; z3 (datatypes + bit-vectors) decides the mgu laws',
    engine='mirsym', design='DESIGN.md §3 C01')

CLAIMED['C02'] = prog_claim('Here: eq/diseq/conde/fresh programs, every permutation of the constraint goals as its own template.', 'DESIGN.md §3 C02')
CLAIMED['C03'] = prog_claim('Here additionally, on the real result objects: no program variable survives in an answer term or reported constraint, and the real '
                            'LResult::constraints()/is_constrained() return exactly the reported constraints with an operand among the reified variables of the answer term (nested lists / compounds included).', 'DESIGN.md §3 C03')
CLAIMED['C05'] = prog_claim('Here: programs inside dfs { } (nested cond, conjunctions, member/append, the binary DFSDisj node, 16 / 100 generated dfs programs); the answer SEQUENCE must equal the depth-first reference order.', 'DESIGN.md §3 C05')
CLAIMED['C06'] = prog_claim('Here: default interleaving search (hand-written templates, 24 / 150 generated programs, dfs programs as multisets, the binary Disj node); answer multisets must coincide; for loop/anyo prefixes every produced answer must be a reference answer.', 'DESIGN.md §3 C06')
CLAIMED['C08'] = prog_claim('Here: conda / condu / onceo with heads that have 0, 1 or several answers (several: in deterministic dfs order), heads that fail or succeed only after lazy steps, and failing/succeeding rests; 8 / 100 generated programs.', 'DESIGN.md §3 C08')
CLAIMED['C10'] = prog_claim('Here: conde { A, B } under a shared constraint prefix versus the union of the reference answers of A and of B, including branches that share the domain store, the substitution, the constraint store, a term mutated through the list API, and goals that cache state; Rc sharing, raw-pointer writes and Box pointer copies are modelled, so an in-place update of shared state is seen.', 'DESIGN.md §3 C10')
CLAIMED['C11'] = prog_claim('Here: project |x| { .. } with non-relational observer goals (number successor, Rust-level identity of two projected terms), aliased and completely unbound projected variables, reached by one or several states, with and without closure wrapper; panics are violations. One genuine defect is a recorded known finding.', 'DESIGN.md §3 C11')
CLAIMED['C12'] = prog_claim('Here: `for x in &coll { body }` over Vec and LTerm-list collections of 0..7 elements (repeated elements, non-deterministic and multi-clause bodies) versus the explicit conjunction.', 'DESIGN.md §3 C12')
CLAIMED['C13'] = prog_claim('Here: match / matche / matcha / matchu expressions (alternatives with equal and different name sets, repeated names, wildcards, literal / list / improper / nested-improper / empty patterns, shadowing of outer variables and of variables of the matched term, empty bodies, overlapping arms, statically failing committed arms) translated by the real proc-macro.', 'DESIGN.md §3 C13')
CLAIMED['C14'] = prog_claim('Here: the clause grammar and term syntax (literals of every kind, nested proper/improper lists incl. improper literals with several heads nested in lists and in tails, `_`, tuple compounds, fresh, conde, empty conjunction clauses, closure, true/false directly in operator bodies, one goal value used twice) translated by the real proc-macros.', 'DESIGN.md §3 C14')
CLAIMED['C15'] = prog_claim('Here: the scoping templates (shadowing, same-named variables in sibling scopes, pattern variables, recursive relations introducing fresh variables); alpha-renaming invariance is implied by agreement with the reference, which is name-free.', 'DESIGN.md §3 C15')
CLAIMED['C04'] = prog_claim('Here: permutations of the goals of a conjunction / of the clauses of a disjunction (eq, chained and subsumed diseq, finite-domain constraints posted before and after bindings and domains, aliasing, sparse+interval domain merges, member, conde); identity, reverse and every rotation are always included (thorough: all permutations); each is its own template and must give exactly the reference answer multiset of the BASE order.', 'DESIGN.md §3 C04')
CLAIMED['C07'] = prog_claim('Here (bounded form of fairness): disjunctions mixing finite goals with infinite producers (always, loop), silent divergers (never, recursive-closure divergers, diverging dfs blocks) and committed-choice operators whose first goal diverges or answers late; every answer of every productive branch must occur among the first N answers and within the step bound. A violation is replayed natively under a 30 s watchdog.', 'DESIGN.md §3 C07')
CLAIMED['C09'] = prog_claim('Here: every template function calls next() twice more after the first None (fused); prefix templates take the first N answers of infinite streams, also inside dfs and next to diverging branches (lazy); determinism: each program is run up to five times on every path - hash-based stores iterated in insertion order, with a solver-chosen order of the first two iterations, and with EVERY iteration reversed (thorough: rotated, alternating, pairwise swapped) - and all answer sequences must coincide. An order dependence that needs another permutation is outside the bound (DESIGN.md section 6 describes one such residual observation).', 'DESIGN.md §3 C09')
CLAIMED['C16'] = prog_claim('Here: CLP(FD) programs over small signed interval and sparse domains (ltefd, ltfd, plusfd, minusfd, timesfd, diseqfd, distinctfd; operand aliasing; symbolic constants; constraints before/after domains, unifications and bindings; domain transfer along binding chains; nested-list and compound query terms; hidden variables; 12 / 60 generated programs) through propagation and labeling versus brute-force enumeration of the domain product: no answer violates a constraint. Every template is also executed with every iteration of the hash-based stores reversed (thorough: rotated, swapped, alternating): soundness must not depend on the hash seed.', 'DESIGN.md §3 C16')
CLAIMED['C17'] = prog_claim('Same CLP(FD) templates as C16: multiset equality with the brute-force enumeration also shows that every solution (list-shaped query terms, hidden variables) is returned, and exactly once.', 'DESIGN.md §3 C17')
CLAIMED['C20'] = prog_claim('Here: the crate\'s tuple compound (a, b) and #[compound] structs (tuple-like structs, a struct with an Option<Leaf> field, a recursive struct with typed fields, a named struct reached through match patterns, typed variables; the definitions are expanded by the real attribute macro on every run): field-wise unification, compound versus list / literal / compound of another type, Some versus None, occurs check through fields, disequality, deep walk* at reification, finite-domain labeling of fields, nesting; the reference treats a compound as a tagged constructor (the tagged-list reading). Named-struct constructor syntax does not parse inside == in this version of the macros, so named values arise from patterns only.', 'DESIGN.md §3 C20')
CLAIMED['C21'] = dict(
    level='other',
    text='Symbolic execution of the MIR of LTerm\'s PartialEq and Hash implementations (with LValue, VarID and the tuple compound) and of the list API '
         '(LTermIter, LTermIterMut, head/tail, is_list/is_empty/is_improper, Index, IndexMut, contains, from_vec/from_array/collect/improper_from_vec, extend incl. extending a clone) on lazily initialised symbolic terms. '
         'z3 decides per path that == coincides with structural equality in both argument orders, that equal terms write identical hash transcripts, and that every list '
         'operation agrees with the element sequence read off the term.',
    note=MIRSYM_NOTE + 'Bound: term depth <= 2 for ==/hash, lists of <= 3 cells with elements of depth <= 1 (including [] elements, nested lists, improper tails); Display is outside.',
    technique='symbolic execution of rustc MIR with lazily initialised term inputs; z3 decides equality/hash/list laws per path; native replay',
    engine='mirsym', design='DESIGN.md §3 C21')
CLAIMED['C22'] = prog_claim('Here: programs run with a generated User type that counts with_constraint / take_constraint / process_extension calls; probe goals between the goals expose [with - take - store size, number of extensions, size of the last extension]; the same balance is read off the answer state after reification.', 'DESIGN.md §3 C22')
CLAIMED['C23'] = prog_claim('Here: well-formed programs of every family (CLP(Z) with disequalities, CLP(FD) with aliased and hidden variables, project in closures, for, matching, compounds, committed choice, dfs); every panic site reached on a feasible path is reported with concrete parameters and replayed.', 'DESIGN.md §3 C23')
CLAIMED['C24'] = prog_claim('Here: member, member1, append, rember, permute, distinct, cons, first, rest, empty in several argument modes on lists of symbolic integers versus reference definitions written from the documentation.', 'DESIGN.md §3 C24')

ALL = ['C%02d' % i for i in range(1, 25)]
PENDING = 'check not built yet in this round (construction order in DESIGN.md §4); not claimed until its engine layer is validated'

def main():
    checks = []
    for pid in ALL:
        if pid in CLAIMED:
            c = CLAIMED[pid]
            checks.append({
                'property_id': pid,
                'quick_cmd': './check %s --tier quick' % pid,
                'thorough_cmd': './check %s --tier thorough' % pid,
                'evidence_file': '/verif/evidence/%s.json' % pid,
                'replay_cmd_template': './check %s --replay {path}' % pid,
                'engine': c['engine'],
                'level_claimed': {'category': c['level'], 'text': c['text'], 'design_ref': c['design']},
                'level_note': c['note'],
                'technique': c['technique'],
            })
    na = [{'property_id': pid, 'reason': NA.get(pid, PENDING)} for pid in ALL if pid not in CLAIMED]
    man = {
        'version': 1,
        'setup_cmd': './setup.sh',
        'hooks': {
            'guard': 'cargo feature terohuttunen_proto_vulcan_verif',
            'enable': 'cargo kani --features hooks in /verif/kani (forwards proto-vulcan/terohuttunen_proto_vulcan_verif); '
                      'native replay and the MIR dump build /repo WITHOUT the feature',
            'baseline_off_cmd': 'cd /repo && cargo test --workspace --no-fail-fast --offline',
            'source_commits': ['c681edc'],
            'add_only': True,
        },
        'engines': [
            {'name': 'kani', 'path': '/verif/kani', 'serves_properties': ['C18'],
             'kind_free_text': 'Kani proof harnesses over the real crate (path dependency on /repo), run per harness through goto-cc/goto-instrument/cbmc by lib/kanirun.py'},
            {'name': 'mirsym', 'path': '/verif/mirsym', 'serves_properties': sorted(p for p, c in CLAIMED.items() if c['engine'] == 'mirsym'),
             'kind_free_text': 'own symbolic executor for rustc MIR (-Zunpretty=mir of /repo, regenerated per run) with z3 as the deciding solver'},
        ],
        'checks': checks,
        'not_applicable': na,
        'notes': 'Exit codes: 0 held on everything explored (KNOWN-FINDING / INCONCLUSIVE lines possible), 1 + VIOLATION line only after '
                 'native replay, 2 broken machinery. Known findings: /verif/known_findings.json.',
    }
    json.dump(man, open('/verif/MANIFEST.json', 'w'), indent=1)

if __name__ == '__main__':
    main()
