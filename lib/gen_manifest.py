#!/usr/bin/env python3
"""Regenerates /verif/MANIFEST.json from the table below (single source of truth)."""
import json

CLAIMED = {
    'C18': dict(
        level='model_checking',
        text='Bounded model checking of the compiled fd.rs with Kani/CBMC: for every operation of FiniteDomain the '
             'result is compared with the set-theoretic result for ALL operand values within the bound (symbolic interval '
             'bounds, symbolic elements of sparse vectors of length 1..3, symbolic probe value), unwinding assertions on. '
             'This is the right level because the state space is flat integer data and the interesting inputs (duplicates, '
             'extreme bounds, subset/superset pairs) are rare; the solver covers all of them inside the window.',
        note='Trusted: Kani 0.68 codegen, CBMC 6.11, CaDiCaL; every counterexample is replayed against a native build of the '
             'real library (dev and release) before it is reported. Bound: windows of 9 consecutive values at -4, isize::MIN and '
             'isize::MAX-8 (quick: centre window only), sparse length <= 3, full isize range for loop-free interval operations. '
             'diff / == on mixed representations / sparse-sparse intersect are outside the Kani part (CBMC does not finish them).',
        technique='bounded model checking of compiled Rust (Kani -> CBMC -> SAT), symbolic inputs, membership oracle',
        engine='kani',
        design='DESIGN.md §3 C18'),
}

NA = {
}

CLAIMED['C19'] = dict(
    level='other',
    text='Symbolic execution of the MIR of the real plusz/timesz relations (constructor, Solve::solve, Constraint::run) and of '
         'State::unify/run_constraints with z3 deciding ALL integer values inside a window: program skeletons with one or two '
         'constraints, every operand kind/aliasing pattern, optional variable-variable unification before/after posting, every '
         'binding order and every binding prefix. Per feasible path the solver checks: success => every equation holds on the '
         'answer; failure => the equations have no solution; no panic; an operand determined by the other two is bound in the answer. '
         'Appropriate because the arithmetic arms are reached only through State-level code that Kani cannot execute, and the '
         'rare inputs (zero factors, non-divisible products, aliasing, wake-up order) are exactly what a solver finds.',
    note='Trusted: the mirsym executor and its std models (HashMap/HashSet as association lists with the crate\'s own PartialEq, Vec, '
         'Option/Result, Rust integer semantics), z3 5.1, the nightly MIR dump (regenerated from /repo on every run). Every reported '
         'counterexample is first replayed as a proto_vulcan_query! program against the native library. Bound: window |n|<=12 (plusz) / '
         '|n|<=4 (timesz) quick, 100 / 12 thorough; <= 3 variables; <= 2 constraints; U=DefaultUser. Outside: interaction with CLP(FD) domains, longer chains.',
    technique='symbolic execution of rustc MIR (own executor) with z3 deciding all integer inputs per path; native replay of models',
    engine='mirsym',
    design='DESIGN.md §3 C19')

ALL = ['C%02d' % i for i in range(1, 25)]
PENDING = 'check not built yet in this round (construction order in DESIGN.md §4); not claimed until its engine layer is validated'

def main():
    checks = []
    for pid in ALL:
        if pid in CLAIMED:
            c = CLAIMED[pid]
            checks.append({
                'property_id': pid,
                'quick_cmd': './check %s --tier quick' % pid,
                'thorough_cmd': './check %s --tier thorough' % pid,
                'evidence_file': '/verif/evidence/%s.json' % pid,
                'replay_cmd_template': './check %s --replay {path}' % pid,
                'engine': c['engine'],
                'level_claimed': {'category': c['level'], 'text': c['text'], 'design_ref': c['design']},
                'level_note': c['note'],
                'technique': c['technique'],
            })
    na = [{'property_id': pid, 'reason': NA.get(pid, PENDING)} for pid in ALL if pid not in CLAIMED]
    man = {
        'version': 1,
        'setup_cmd': './setup.sh',
        'hooks': {
            'guard': 'cargo feature terohuttunen_proto_vulcan_verif',
            'enable': 'cargo kani --features hooks in /verif/kani (forwards proto-vulcan/terohuttunen_proto_vulcan_verif); '
                      'native replay and the MIR dump build /repo WITHOUT the feature',
            'baseline_off_cmd': 'cd /repo && cargo test --workspace --no-fail-fast --offline',
            'source_commits': ['c681edc'],
            'add_only': True,
        },
        'engines': [
            {'name': 'kani', 'path': '/verif/kani', 'serves_properties': ['C18'],
             'kind_free_text': 'Kani proof harnesses over the real crate (path dependency on /repo), run per harness through goto-cc/goto-instrument/cbmc by lib/kanirun.py'},
            {'name': 'mirsym', 'path': '/verif/mirsym', 'serves_properties': ['C19'],
             'kind_free_text': 'own symbolic executor for rustc MIR (-Zunpretty=mir of /repo, regenerated per run) with z3 as the deciding solver'},
        ],
        'checks': checks,
        'not_applicable': na,
        'notes': 'Exit codes: 0 held on everything explored (KNOWN-FINDING / INCONCLUSIVE lines possible), 1 + VIOLATION line only after '
                 'native replay, 2 broken machinery. Known findings: /verif/known_findings.json.',
    }
    json.dump(man, open('/verif/MANIFEST.json', 'w'), indent=1)

if __name__ == '__main__':
    main()
