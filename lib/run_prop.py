"""Per-property composition of engine runs."""
import importlib
import os
import sys

from common import Report, log, say
import kanirun


def run(prop, tier):
    mod = importlib.import_module(prop.lower())
    return mod.run(tier)


def replay(prop, path):
    """Re-run a recorded counterexample natively; exit 1 if it still reproduces."""
    if path.endswith('.rs'):
        out = kanirun.replay_case(path)
        for prof, (okk, tail) in out.items():
            say('replay[%s]: %s %s' % (prof, 'REPRODUCED' if okk else 'not reproduced', tail))
        return 1 if any(okk for okk, _ in out.values()) else 0
    mod = importlib.import_module(prop.lower())
    return mod.replay(path)
