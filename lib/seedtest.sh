#!/bin/bash
# usage: seedtest.sh <seed-dir-name> <property> [patch-file-name]
# Applies a seeded mutation to /repo, runs the property's quick check (evidence redirected), restores /repo.
seed=$1; prop=$2; patch=${3:-patch.diff}
cd /verif
if ! git -C /repo diff --quiet; then echo "REPO DIRTY"; exit 3; fi
if ! git -C /repo apply /verif/seeded/$seed/$patch 2>/tmp/seed_apply.err; then echo "PATCH-DOES-NOT-APPLY $seed: $(head -2 /tmp/seed_apply.err | tr '\n' ' ')"; exit 4; fi
VERIF_EVIDENCE_DIR=/tmp/seed_evidence ./check $prop --tier ${SEED_TIER:-quick} > /tmp/seedtest_${seed}_${prop}.log 2>&1
rc=$?
git -C /repo checkout -- .
echo "SEED $seed check=$prop exit=$rc $(grep -c '^VIOLATION' /tmp/seedtest_${seed}_${prop}.log) violations, $(grep -c 'BROKEN-CHECK' /tmp/seedtest_${seed}_${prop}.log) broken, $(grep -c '^INCONCLUSIVE' /tmp/seedtest_${seed}_${prop}.log) inconclusive"
grep -m2 -A1 '^VIOLATION' /tmp/seedtest_${seed}_${prop}.log | cut -c1-330
exit $rc
