"""Run a family of Kani harnesses as the check of one property (Engine K)."""
import os
import re

import kanirun
from common import Report, log, say, VERIF


def run(prop, tier, harnesses, twin, timeout_s, jobs, explanation, functions, assumptions,
        mem_gb=10, report=None, finish=True):
    """harnesses: list of pretty names (`c18::c18c::contains_s2`)."""
    rep = report or Report(prop, tier, 'model_checking', 'kani')
    rep.functions += functions
    rep.assumptions += assumptions
    names = list(harnesses) + ([twin] if twin else [])
    try:
        meta, tcg = kanirun.codegen(names, extra_kani_args=['--exact'])
    except Exception as e:
        rep.broke('kani codegen failed: %s' % e)
        return rep.finish(explanation) if finish else rep
    missing = [n for n in names if n not in meta]
    if missing:
        rep.broke('harnesses missing after codegen: %s' % missing)
        return rep.finish(explanation) if finish else rep
    log('[%s] kani codegen %.1fs, %d harnesses' % (prop, tcg, len(names)))
    results = kanirun.run_many(meta, names, timeout_s=timeout_s, jobs=jobs, mem_gb=mem_gb)
    nchecks = 0
    replayed = 0
    for r in results:
        name = r['harness']
        bound = {'unwind': r['unwind'], 'checks': r['checks'], 'wall_s': r['wall_s']}
        nchecks += r['checks']
        if twin and name == twin:
            if r['status'] == 'FAILED' and any('vacuity twin reached' in f['description'] for f in r['failed']):
                rep.obligation(name, 'holds', detail='vacuity twin fails as it must', **bound)
            elif r['status'] in ('TIMEOUT', 'ERROR', 'UNDETERMINED'):
                rep.obligation(name, 'inconclusive', detail=r['status'], **bound)
            else:
                rep.obligation(name, 'broken', **bound)
                rep.broke('vacuity twin %s did not fail (%s)' % (name, r['status']))
            continue
        if r['status'] == 'SUCCESS':
            bad = [c for c, s in r['covers'].items() if s != 'SATISFIED']
            if bad:
                rep.obligation(name, 'broken', detail='cover not satisfied: %s' % bad, **bound)
                rep.broke('harness %s is vacuous: cover(s) %s unsatisfiable' % (name, bad))
            else:
                rep.obligation(name, 'holds', covers=len(r['covers']), **bound)
        elif r['status'] == 'FAILED':
            what = '; '.join(sorted({f['description'] for f in r['failed']}))[:300]
            key = '%s: %s' % (name, sorted({f['description'] for f in r['failed']})[0][:120])
            case = os.path.join(VERIF, 'replay', 'cases', '%s-%s.rs' % (prop, name.replace('::', '.')))
            tests = kanirun.concrete_values(name)
            reproduced, tail = False, 'no concrete values from Kani'
            for vals in (tests or []):
                kanirun.write_case(case, prop, name, vals, what)
                out = kanirun.replay_case(case)
                replayed += 1
                if any(ok for ok, _ in out.values()):
                    reproduced = True
                    tail = '; '.join('%s: %s' % (p, t) for p, (ok, t) in out.items() if ok)
                    break
                tail = '; '.join('%s: %s' % (p, t) for p, (ok, t) in out.items())
            if reproduced:
                new = rep.violation(key, '%s fails: %s [native replay: %s]' % (name, what, tail), case)
                rep.obligation(name, 'violated' if new else 'known', detail=what, **bound)
            else:
                rep.obligation(name, 'broken', detail='counterexample does not reproduce natively: ' + tail, **bound)
                rep.broke('ENCODING-MISMATCH %s: %s | %s' % (name, what, tail))
        else:
            detail = r['status'] + ' ' + (r.get('detail') or '')[:200]
            if r.get('undetermined'):
                detail += ' ' + '; '.join(sorted({u['description'] for u in r['undetermined']}))[:200]
            rep.obligation(name, 'inconclusive', detail=detail, **bound)
    rep.extra['states'] = rep.extra.get('states', 0) + nchecks
    rep.extra['transitions'] = rep.extra.get('transitions', 0) + nchecks
    rep.extra['replayed'] = rep.extra.get('replayed', 0) + replayed
    rep.extra['cbmc_checks_total'] = rep.extra.get('cbmc_checks_total', 0) + nchecks
    rep.extra['kani_codegen_s'] = round(tcg, 1)
    if finish:
        return rep.finish(explanation, trusted_base=['Kani 0.68.0 codegen', 'CBMC 6.11.0', 'CaDiCaL'],
                          checker_cmd='cargo kani --only-codegen --features hooks; goto-cc; goto-instrument; cbmc --unwind N --sat-solver cadical')
    return rep
