"""Engine K: run Kani proof harnesses of /verif/kani against /repo's current tree.

The crate is compiled once per invocation with `cargo kani --only-codegen` (which rebuilds the
path dependency /repo when its sources changed); the per-harness goto-cc / goto-instrument /
cbmc pipeline that kani-driver would run is then executed here, so that harnesses run in
parallel under a wall-clock limit and an address-space limit each, and so that the raw CBMC
property results (json-ui) can be classified precisely:

  * propertyClass `reachability_check`  – Kani's instrumentation, ignored
  * propertyClass `cover`               – FAILURE means the cover is SATISFIED
  * `unwind` / `unsupported_construct` FAILURE – the bound is too small / construct not
                                          supported: the harness is *inconclusive*
  * everything else FAILURE             – a failed check (candidate violation)

Counterexamples are obtained with Kani's concrete playback and re-run against a *native*
build of the harness crate without the hook feature (see replay()).
"""
import glob
import json
import os
import re
import resource
import shutil
import subprocess
import sys
import time
from concurrent.futures import ThreadPoolExecutor

KANI_DIR = '/verif/kani'
TARGET = os.path.join(KANI_DIR, 'target', 'kani')
KANI_LIB_C = os.path.expanduser('~/.kani/kani-0.68.0/library/kani/kani_lib.c')
ENV = dict(os.environ, CARGO_NET_OFFLINE='true')
CBMC_FLAGS = ['--no-malloc-may-fail', '--no-undefined-shift-check', '--no-signed-overflow-check',
              '--nan-check', '--no-self-loops-to-assumptions', '--no-pointer-primitive-check',
              '--object-bits', '16', '--sat-solver', 'cadical', '--slice-formula']


def log(*a):
    print(*a, file=sys.stderr, flush=True)


def codegen(filters, extra_kani_args=()):
    """Compile the harness crate (and /repo) for the harnesses matching `filters`."""
    t0 = time.time()
    cmd = ['cargo', 'kani', '--only-codegen', '--features', 'hooks'] + list(extra_kani_args)
    for f in filters:
        cmd += ['--harness', f]
    p = subprocess.run(cmd, cwd=KANI_DIR, env=ENV, stdout=subprocess.PIPE,
                       stderr=subprocess.STDOUT, text=True)
    if p.returncode != 0:
        log(p.stdout[-6000:])
        raise RuntimeError('cargo kani --only-codegen failed')
    metas = glob.glob(os.path.join(TARGET, '*/debug/build/pvk/*/out/*.kani-metadata.json'))
    if not metas:
        raise RuntimeError('no kani metadata produced')
    meta = max(metas, key=os.path.getmtime)
    harnesses = {h['pretty_name']: h for h in json.load(open(meta))['proof_harnesses']}
    return harnesses, time.time() - t0


def _limits(mem_gb):
    def f():
        b = int(mem_gb * (1 << 30))
        resource.setrlimit(resource.RLIMIT_AS, (b, b))
    return f


def run_harness(h, timeout_s, mem_gb=10, extra_cbmc=()):
    """Run one harness; returns a result dict."""
    t0 = time.time()
    name = h['pretty_name']
    sym = h['goto_file']
    out = sym[:-len('.symtab.out')] + '.run.out'
    fn = h['mangled_name']
    unwind = h['attributes'].get('unwind_value')
    res = {'harness': name, 'unwind': unwind, 'status': 'ERROR', 'failed': [], 'covers': {},
           'checks': 0, 'wall_s': 0.0}
    try:
        steps = [
            ['goto-cc', sym, KANI_LIB_C, '-o', out],
            ['goto-cc', out, '--function', fn, '-o', out],
            ['goto-instrument', '--add-library', '--no-malloc-may-fail', out, out],
            ['goto-instrument', '--generate-function-body-options', 'assert-false-assume-false',
             '--generate-function-body', '.*', '--drop-unused-functions', out, out],
            ['goto-instrument', '--ensure-one-backedge-per-target', out, out],
        ]
        for s in steps:
            p = subprocess.run(s, stdout=subprocess.PIPE, stderr=subprocess.STDOUT, text=True,
                               timeout=300)
            if p.returncode != 0:
                res['detail'] = 'step failed: %s\n%s' % (' '.join(s[:2]), p.stdout[-2000:])
                return res
        cmd = ['cbmc'] + CBMC_FLAGS + list(extra_cbmc)
        if unwind is not None:
            cmd += ['--unwind', str(unwind)]
        cmd += [out, '--json-ui']
        try:
            p = subprocess.run(cmd, stdout=subprocess.PIPE, stderr=subprocess.DEVNULL, text=True,
                               timeout=timeout_s, preexec_fn=_limits(mem_gb))
        except subprocess.TimeoutExpired:
            res['status'] = 'TIMEOUT'
            return res
        try:
            doc = json.loads(p.stdout)
        except Exception:
            res['status'] = 'ERROR'
            res['detail'] = 'cbmc output not parseable (rc=%s; out of memory?) %s' % (
                p.returncode, p.stdout[-300:])
            return res
        results = None
        for e in doc:
            if isinstance(e, dict) and 'result' in e:
                results = e['result']
        if results is None:
            msgs = [e.get('messageText', '') for e in doc
                    if isinstance(e, dict) and e.get('messageType') == 'ERROR']
            res['detail'] = 'no result section: ' + ' | '.join(msgs)[-500:]
            return res
        failed, undetermined, covers, n = [], [], {}, 0
        for r in results:
            cls = r.get('sourceLocation', {}).get('propertyClass') or r['property'].split('.')[-2]
            st = r['status']
            if cls == 'reachability_check':
                continue
            desc = re.sub(r'^\[KANI_CHECK_ID_[^\]]*\]\s*', '', r.get('description', ''))
            if cls == 'cover':
                covers[desc] = 'SATISFIED' if st == 'FAILURE' else 'UNSATISFIABLE'
                continue
            n += 1
            if st == 'FAILURE':
                loc = r.get('sourceLocation', {})
                item = {'class': cls, 'description': desc, 'function': loc.get('function', ''),
                        'file': loc.get('file', ''), 'line': loc.get('line', '')}
                if cls in ('unwind', 'unsupported_construct'):
                    undetermined.append(item)
                else:
                    failed.append(item)
        res['checks'] = n
        res['covers'] = covers
        res['failed'] = failed
        res['undetermined'] = undetermined
        if undetermined:
            res['status'] = 'UNDETERMINED'
        elif failed:
            res['status'] = 'FAILED'
        else:
            res['status'] = 'SUCCESS'
        return res
    finally:
        res['wall_s'] = round(time.time() - t0, 2)
        try:
            os.remove(out)
        except OSError:
            pass


def run_many(harness_meta, names, timeout_s, jobs=8, mem_gb=10):
    todo = [harness_meta[n] for n in names]
    with ThreadPoolExecutor(max_workers=jobs) as ex:
        futs = [ex.submit(run_harness, h, timeout_s, mem_gb) for h in todo]
        out = []
        for f, h in zip(futs, todo):
            r = f.result()
            log('  [K] %-40s %-12s %6.1fs  checks=%d%s' % (
                r['harness'], r['status'], r['wall_s'], r['checks'],
                ('  failed: ' + '; '.join(sorted({x['description'] for x in r['failed']}))[:160])
                if r['failed'] else ''))
            out.append(r)
    return out


def concrete_values(name, timeout_s=1800):
    """Ask Kani for the counterexample of harness `name` as byte vectors (one per nd::any())."""
    cmd = ['cargo', 'kani', '--features', 'hooks', '--harness', name, '--exact',
           '-Z', 'concrete-playback', '--concrete-playback=print']
    try:
        p = subprocess.run(cmd, cwd=KANI_DIR, env=ENV, stdout=subprocess.PIPE,
                           stderr=subprocess.STDOUT, text=True, timeout=timeout_s)
    except subprocess.TimeoutExpired:
        return None
    tests = []
    for m in re.finditer(r'let concrete_vals: Vec<Vec<u8>> = vec!\[(.*?)\n\s*\];', p.stdout, re.S):
        vals = [[int(x) for x in v.split(',') if x.strip()]
                for v in re.findall(r'vec!\[([0-9,\s]*)\]', m.group(1))]
        tests.append(vals)
    return tests


def write_case(path, prop, name, vals, what):
    fn = 'pvk::' + name
    body = ',\n        '.join('vec![%s]' % ', '.join(map(str, v)) for v in vals)
    src = '''// Counterexample found by Kani/CBMC for property %s, harness %s
// failed check: %s
// Replay: /verif/check %s --replay %s   (runs this test natively against /repo, no hooks)
#[test]
fn replay() {
    pvk::nd::set_replay(vec![
        %s
    ]);
    %s();
}
''' % (prop, name, what, prop, path, body, fn)
    os.makedirs(os.path.dirname(path), exist_ok=True)
    open(path, 'w').write(src)


def replay_case(path, profiles=('dev', 'release')):
    """Run a case file natively (no hook feature). Returns {profile: (reproduced, tail)}."""
    tdir = os.path.join(KANI_DIR, 'tests')
    os.makedirs(tdir, exist_ok=True)
    dst = os.path.join(tdir, 'replay_case.rs')
    shutil.copyfile(path, dst)
    out = {}
    try:
        for prof in profiles:
            cmd = ['cargo', 'test', '--offline', '--test', 'replay_case',
                   '--target-dir', os.path.join(KANI_DIR, 'target', 'native')]
            if prof == 'release':
                cmd.append('--release')
            p = subprocess.run(cmd, cwd=KANI_DIR, env=ENV, stdout=subprocess.PIPE,
                               stderr=subprocess.STDOUT, text=True, timeout=1800)
            txt = p.stdout
            if 'ND-ASSUME-FAILED' in txt or 'ND-REPLAY' in txt:
                out[prof] = (False, 'replay did not satisfy the harness assumptions: ' + txt[-400:])
            elif 'has overflowed its stack' in txt or re.search(r"process didn't exit successfully.*\(signal", txt):
                m = re.search(r'(thread .* has overflowed its stack|signal: \d+[^)]*)', txt)
                out[prof] = (True, 'the test process crashed: ' + (m.group(1) if m else 'abnormal exit'))
            elif re.search(r'test replay \.\.\. FAILED', txt) or 'panicked at' in txt:
                m = re.search(r'panicked at[^\n]*\n[^\n]*', txt)
                out[prof] = (True, m.group(0) if m else 'test failed')
            elif re.search(r'test replay \.\.\. ok', txt):
                out[prof] = (False, 'test passed natively')
            else:
                out[prof] = (False, 'native build/run problem: ' + txt[-600:])
    finally:
        try:
            os.remove(dst)
        except OSError:
            pass
    return out
