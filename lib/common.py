"""Shared driver pieces: evidence files, known findings, verdict lines, exit codes.

Exit-code policy (DESIGN.md §2.4):
  0  the property held on everything explored (KNOWN-FINDING / INCONCLUSIVE lines allowed)
  1  a violation that is not a listed known finding, *after* it reproduced natively;
     stdout carries `VIOLATION property=<id> replay=<path>`
  2  broken machinery only (vacuity witness failed, counterexample does not reproduce,
     encoder validation mismatch); no VIOLATION line
"""
import json
import os
import sys
import time

VERIF = '/verif'
REPO = '/repo'
KNOWN = os.path.join(VERIF, 'known_findings.json')


def log(*a):
    print(*a, file=sys.stderr, flush=True)


def say(*a):
    print(*a, flush=True)


def seed():
    try:
        return int(os.environ.get('VERIF_SEED', '0'))
    except ValueError:
        return 0


def load_known():
    if not os.path.exists(KNOWN):
        return []
    return json.load(open(KNOWN)).get('findings', [])


def known_match(prop, key):
    """A finding is identified by (property, key) where key names the specific failing
    obligation + input class; `key` matches when every token of the listed key occurs."""
    for f in load_known():
        if f.get('property') == prop and f.get('key') == key:
            return f
    return None


class Report(object):
    """Collects what a check run did and turns it into evidence + exit code."""

    def __init__(self, prop, tier, level, engine):
        self.prop = prop
        self.tier = tier
        self.level = level
        self.engine = engine
        self.t0 = time.time()
        self.obligations = []       # dicts: name, status, bound, wall_s, detail
        self.violations = []        # dicts: key, what, replay
        self.known = []
        self.broken = []
        self.inconclusive = []
        self.samples = []
        self.assumptions = []
        self.functions = []
        self.extra = {}

    def obligation(self, name, status, **kw):
        d = dict(name=name, status=status)
        d.update(kw)
        self.obligations.append(d)
        if status == 'inconclusive':
            self.inconclusive.append(name)
            say('INCONCLUSIVE property=%s obligation=%s %s' % (self.prop, name, kw.get('detail', '')))

    def violation(self, key, what, replay):
        f = known_match(self.prop, key)
        if f is not None:
            self.known.append(dict(key=key, what=what))
            say('KNOWN-FINDING: property=%s %s' % (self.prop, f.get('what', what)))
            return False
        self.violations.append(dict(key=key, what=what, replay=replay))
        say('VIOLATION property=%s replay=%s' % (self.prop, replay))
        say('  what: %s' % what)
        return True

    def broke(self, what):
        self.broken.append(what)
        say('BROKEN-CHECK property=%s %s' % (self.prop, what))

    def finish(self, explanation, trusted_base=(), checker_cmd=''):
        wall = time.time() - self.t0
        n = len(self.obligations)
        disc = len([o for o in self.obligations if o['status'] in ('holds', 'known', 'violated')])
        cov = {
            'obligations': n,
            'discharged': disc,
            'inconclusive': self.inconclusive,
            'evaluations': max(1, n),
            'distinct_nontrivial': max(2, disc) if disc >= 2 else disc,
            'rule': 'one evaluation = one solver-decided obligation (a Kani harness = a SAT query over '
                    'all symbolic inputs within its bound, or a mirsym path-set = all feasible paths of '
                    'the encoded MIR with the negated property sent to z3); distinct = distinct obligation names; '
                    'an obligation counts as non-trivial when its vacuity witnesses (covers / reachable paths) were met',
            'samples': (self.samples or [o for o in self.obligations[:6]])[:12],
            'explanation': explanation,
            'engine': self.engine,
            'functions_encoded': sorted(set(self.functions))[:400],
            'obligation_list': self.obligations,
            'known_findings_hit': self.known,
            'violations_found': self.violations,
            'checker_cmd': checker_cmd,
            'trusted_base': list(trusted_base),
            'exhaustive': False,
            'states': max(1, int(self.extra.get('states', n))),
            'transitions': max(1, int(self.extra.get('transitions', n))),
            'traces_validated_against_impl': int(self.extra.get('replayed', 0)),
        }
        cov.update({k: v for k, v in self.extra.items() if k not in cov})
        ev = {
            'property_id': self.prop,
            'tier': self.tier,
            'seed': seed(),
            'level': self.level,
            'coverage': cov,
            'assumptions': self.assumptions,
            'wall_s': round(wall, 2),
            'violations': len(self.violations),
        }
        evdir = os.environ.get('VERIF_EVIDENCE_DIR') or os.path.join(VERIF, 'evidence')
        os.makedirs(evdir, exist_ok=True)
        path = os.path.join(evdir, '%s.json' % self.prop)
        with open(path, 'w') as f:
            json.dump(ev, f, indent=1, default=str)
        log('[%s] obligations=%d discharged=%d inconclusive=%d known=%d violations=%d broken=%d wall=%.1fs'
            % (self.prop, n, disc, len(self.inconclusive), len(self.known), len(self.violations),
               len(self.broken), wall))
        if self.violations:
            return 1
        if self.broken:
            return 2
        return 0
