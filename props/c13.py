"""C13 — Pattern matching has the documented match/matche/matcha/matchu meaning (Engine M, whole programs)."""
import progprop
import tmpl
from progprop import replay


def run(tier):
    return progprop.run('C13', tier, tmpl.matching(), 'c13',
                        'match / matche / matcha / matchu expressions (alternatives, repeated names, wildcards, literal / list / improper-list / empty patterns, '
                        'shadowing of outer variables, empty bodies) are compiled by the real proc-macro into template functions, executed symbolically from MIR '
                        'and compared with the reference expansion (disjunction over arms and alternatives of `t == p_i` then body, fresh pattern variables per arm; '
                        'committed choice for matcha / matchu).')
