"""C24 — Library list relations implement their documented relations (Engine M, whole programs)."""
import progprop
import tmpl
from progprop import replay


def run(tier):
    return progprop.run('C24', tier, tmpl.library(), 'c24',
                        'member, member1, append, rember, permute, distinct, cons, first, rest, empty are called in several argument modes on lists whose '
                        'elements are symbolic integers (so repeated / distinct elements are decided by the solver); the engine answers are compared with '
                        'independent reference definitions written from the documented meaning.')
