"""Generic driver for properties decided by whole-program templates (prog.py / progrun.py)."""
import kanirun
from common import Report, say
import progrun

FUNCS_ENGINE = ['query::{Query::new, Query::run, ResultIterator::next}', 'solver::Solver::{new, start, start_dfs, next, peek, trunc}',
                'stream::{Stream::*, LazyStream::*, StreamEngine::step}', 'goal::{Goal, DFSGoal, InferredGoal}::*',
                'operator::{conj, conde, disj, fresh, conda, condu, onceo, dfs, closure, anyo}::*',
                'relation::{eq, diseq, member, append, ...}::*', 'state::{State::*, unify_rec, SMap::*, ConstraintStore::*, reify}',
                'lresult::LResult::*', 'the proc-macro expansion of every template (real proto_vulcan_query!)']

ASSUME = ['whole programs are executed from MIR (library + generated template crate, both dumped by nightly rustc on every run) with value semantics for Rc/Box; std collections/iterators are models (HashMap/HashSet iterate in insertion order unless stated)',
          'reference semantics: first-order unification with occurs check, disequalities as disjunctions of pair inequalities, depth-first answer order; written independently in Python (mirsym/prog.py: Ref)',
          'answers are compared up to renaming of free variables; attached disequalities up to logical equivalence over all ground instances (z3 algebraic datatype)',
          'integer parameters of every template range over the window |p| <= 3 (quick) / 4 (thorough) (equality pattern between parameters is what matters); U = DefaultUser, E = StreamEngine']


def run(prop, tier, templates, tag, explanation, window=None, extra_assume=()):
    if window is None:
        window = 3 if tier == 'quick' else 4
    rep = Report(prop, tier, 'other', 'mirsym')
    rep.functions += FUNCS_ENGINE
    rep.assumptions += ASSUME + list(extra_assume)
    progrun.run_templates(rep, prop, templates, tag, window=window)
    return rep.finish(explanation, trusted_base=['mirsym MIR executor + std models', 'reference interpreter mirsym/prog.py', 'z3 5.1', 'rustc nightly MIR dump'],
                      checker_cmd='cargo +nightly rustc -- -Zunpretty=mir (library and generated templates); python3-vt mirsym')


def replay(path):
    out = kanirun.replay_case(path)
    for prof, (okk, tail) in out.items():
        say('replay[%s]: %s %s' % (prof, 'REPRODUCED' if okk else 'not reproduced', tail))
    return 1 if any(okk for okk, _ in out.values()) else 0
