"""C08 — Committed-choice operators keep exactly the committed answers (Engine M, whole programs)."""
import progprop
import tmpl
from progprop import replay


def run(tier):
    import os
    seed = int(os.environ.get('VERIF_SEED', '0') or 0)
    return progprop.run('C08', tier, tmpl.committed() + tmpl.random_tree_programs(seed + 202, 8 if tier == 'quick' else 100), 'c08',
                        'conda / condu / onceo programs executed symbolically from MIR; heads with 0, 1 or several answers (several: produced '
                        'in deterministic dfs order) and failing / succeeding rests; answers compared with the soft-cut / committed-choice reference.')
