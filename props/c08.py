"""C08 — Committed-choice operators keep exactly the committed answers (Engine M, whole programs)."""
import progprop
import tmpl
from progprop import replay


def run(tier):
    return progprop.run('C08', tier, tmpl.committed(), 'c08',
                        'conda / condu / onceo programs executed symbolically from MIR; heads with 0, 1 or several answers (several: produced '
                        'in deterministic dfs order) and failing / succeeding rests; answers compared with the soft-cut / committed-choice reference.')
