"""C06 — Interleaving search loses no answers and invents none (Engine M, whole programs)."""
import progprop
import tmpl
from progprop import replay


def run(tier):
    import os
    seed = int(os.environ.get('VERIF_SEED', '0') or 0)
    ts = tmpl.search_bfs() + tmpl.branches()[:4] + tmpl.infinite() + tmpl.random_tree_programs(seed, 24 if tier == 'quick' else 150) + [(n, pr, k, 'multiset', lim, ex) for (n, pr, k, md, lim, ex) in (tmpl.search_dfs() + tmpl.random_dfs_programs(seed + 7, 8 if tier == 'quick' else 40))]
    return progprop.run('C06', tier, ts, 'c06',
                        'Whole programs (real macro expansion, real interleaving engine) are executed symbolically from MIR; for every feasible '
                        'path (= every equality pattern between the symbolic integer parameters) the multiset of answers of the default '
                        'search is compared with the reference semantics. Besides the hand-written templates, generated programs (random_tree_programs: ==, !=, member, conde / conda / condu / onceo, true / false, '
                        'proper / improper lists, tuples; 24 in the quick tier, 150 in the thorough tier, generator seeded by VERIF_SEED) are decided the same way. Bounded: the listed program templates, parameters in a small window.')
