"""C06 — Interleaving search loses no answers and invents none (Engine M, whole programs)."""
import progprop
import tmpl
from progprop import replay


def run(tier):
    ts = tmpl.search_bfs() + tmpl.branches()[:4] + tmpl.infinite()
    return progprop.run('C06', tier, ts, 'c06',
                        'Whole programs (real macro expansion, real interleaving engine) are executed symbolically from MIR; for every feasible '
                        'path (= every equality pattern between the symbolic integer parameters) the multiset of answers of the default '
                        'search is compared with the reference semantics. Bounded: the listed program templates, parameters in a small window.')
