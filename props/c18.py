"""C18 — FiniteDomain operations implement set semantics (Engine K part; Engine M part in c18m)."""
import kprop

FUNCTIONS = ['proto_vulcan::state::fd::FiniteDomain::{is_singleton, singleton_value, min, max, copy_before, '
             'drop_before, intersect, diff, is_disjoint, contains, iter, into_iter}',
             '<FiniteDomain as PartialEq>::eq', '<FiniteDomain as From<Vec<isize>>>::from',
             '<FiniteDomain as From<&[isize]>>::from', '<FiniteDomain as From<RangeInclusive<isize>>>::from',
             '<FiniteDomainIter as Iterator/DoubleEndedIterator>::{next, next_back}',
             '<FiniteDomainIntoIter as Iterator/DoubleEndedIterator>::{next, next_back}']

ASSUME = ['Kani 0.68 / CBMC 6.11 / CaDiCaL verdicts (every counterexample is replayed natively before it is reported)',
          'hook: VarID counter starts non-zero under the verification feature (not reachable from fd.rs)',
          'sparse domains are built through the public From<Vec<isize>> / From<&[isize]> constructors from vectors of '
          'concrete length 1..3 with symbolic elements; intervals have symbolic bounds lo <= hi',
          'window: values base..=base+8 for base in {-4, isize::MIN, isize::MAX-8}; loop-free interval operations over all of isize']

FULL = ['c18::c18_contains_i_full', 'c18::c18_intersect_ii_full', 'c18::c18_minmax_i_full',
        'c18::c18_singleton_i_full', 'c18::c18_singleton_exact_i_full']
FAMILY = ['contains_s1', 'contains_s2', 'contains_s2_slice', 'contains_s3', 'copy_before_i', 'copy_before_s2',
          'copy_before_s3', 'disjoint_ii', 'disjoint_is2', 'disjoint_s2i', 'disjoint_s2s2', 'disjoint_s3s2',
          'drop_before_i', 'drop_before_s2', 'drop_before_s3', 'intersect_ii', 'intersect_is2', 'intersect_s3i',
          'into_iter_bwd_i', 'into_iter_i', 'iter_bwd_i', 'iter_bwd_s2', 'iter_bwd_s3', 'iter_fwd_i', 'iter_fwd_s2',
          'iter_fwd_s3', 'iter_mixed_i', 'minmax_i', 'minmax_s1', 'minmax_s2', 'minmax_s3', 'singleton_i',
          'singleton_s1', 'singleton_s2', 'singleton_s3', 'singleton_val_s2']
SLOW = ['eq_ii', 'eq_s1s1', 'intersect_s2s2']
TWIN = 'c18::c18_vacuity_twin_must_fail'

EXPLANATION = ('Bounded model checking of the compiled fd.rs (Kani -> CBMC -> SAT): every harness makes the operand '
               'domains and the probe value k symbolic and asserts that the result of the real operation denotes exactly '
               'the set-theoretic result (membership oracle on the inputs, raw representation of the result), None iff empty. '
               'Unwinding assertions are on; covers witness non-vacuity; a twin ending in assert!(false) must fail. '
               'diff, most of == and sparse/sparse intersect are decided by the MIR engine (same evidence file, engine M section).')


def kani_part(tier, report):
    if tier == 'quick':
        hs = FULL + ['c18::c18c::' + h for h in FAMILY]
        timeout, jobs = 400, 12
    else:
        hs = FULL + ['c18::%s::%s' % (fam, h) for fam in ('c18c', 'c18lo', 'c18hi') for h in FAMILY + SLOW]
        timeout, jobs = 2400, 12
    return kprop.run('C18', tier, hs, TWIN, timeout, jobs, EXPLANATION, FUNCTIONS, ASSUME, report=report, finish=False)


def run(tier):
    from common import Report
    rep = Report('C18', tier, 'model_checking', 'kani+mirsym')
    import c18m
    c18m.run_part(tier, rep)
    kani_part(tier, rep)
    return rep.finish(EXPLANATION, trusted_base=['Kani 0.68.0 codegen', 'CBMC 6.11.0', 'CaDiCaL', 'rustc nightly MIR dump', 'mirsym interpreter + std models', 'z3 5.1.0'],
                      checker_cmd='cargo kani --only-codegen --features hooks --exact --harness ...; goto-cc; goto-instrument; cbmc --unwind N')
