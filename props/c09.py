"""C09 — Query iteration is lazy, fused and deterministic (Engine M, whole programs)."""
import progprop
import tmpl
from progprop import replay


def run(tier):
    return progprop.run('C09', tier, tmpl.determinism(tier), 'c09',
                        'Programs whose constraint and domain stores hold several entries are executed twice from MIR on every path: once with the hash-based '
                        'stores iterated in insertion order and once with the iteration order of their first iterations chosen by the solver (any permutation for '
                        '<= 3 entries, any rotation otherwise); and again with EVERY hash iteration of the run reversed (thorough: also rotated, alternating, pairwise swapped); all answer SEQUENCES must coincide (determinism across hash seeds) and agree with the reference. '
                        'Every template function also calls next() twice more after the first None (fusedness), and prefix templates take the first N answers of '
                        'an infinite stream (laziness).',
                        extra_assume=['hash iteration order is modelled as: insertion order, or a solver-chosen permutation/rotation for the first 4 iterations of a run'])
