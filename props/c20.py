"""C20 — Compound terms unify, constrain, reify structurally (Engine M; tuple compounds)."""
import progprop
import tmpl
from progprop import replay


def run(tier):
    return progprop.run('C20', tier, tmpl.compounds(), 'c20',
                        'Programs over the crate\'s tuple compound `(a, b)` (unification of fields, compound versus list / literal, occurs check through fields, '
                        'disequality on compounds, deep walk* of both fields at reification, compounds nested in lists and in compounds) are executed symbolically '
                        'from MIR and compared with the reference, in which a compound is a tagged constructor with pairwise-unified fields (i.e. the tagged-list reading).',
                        extra_assume=['only the tuple compound (LTerm, LTerm) and compounds reached through it are covered; #[compound] structs and Option fields are outside this check (the C01 check covers unify_rec_compound on tuple compounds with lazily symbolic fields)'])
