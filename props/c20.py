"""C20 — Compound terms unify, constrain, reify structurally (Engine M; tuple compounds and #[compound] structs)."""
import progprop
import tmpl
from progprop import replay


def run(tier):
    return progprop.run('C20', tier, tmpl.compounds() + tmpl.compound_structs(), 'c20',
                        'Programs over the crate\'s tuple compound `(a, b)` and over #[compound] structs (tuple-like structs with LTerm fields, a struct with an '
                        'Option<Leaf> field, a recursive struct with typed fields, a named struct reached through match patterns, typed variables): unification of '
                        'fields, compound versus list / literal / compound of another type, Some versus None, occurs check through fields, disequality on compounds, '
                        'deep walk* at reification, FD labeling of fields, compounds nested in lists and in compounds.  The struct definitions are expanded by the real '
                        '#[compound] attribute macro on every run; everything is executed symbolically from MIR and compared with the reference, in which a compound '
                        'is a tagged constructor with pairwise-unified fields (the tagged-list twin).',
                        extra_assume=['struct definitions: Leaf(LTerm), Wrap(LTerm), Pt(LTerm, LTerm), Node(LTerm, Option<Leaf>), Named { a: LTerm, b: Leaf }, Tree(LTerm, Tree, Tree); '
                                      'named-struct VALUES can only be written as match patterns (the constructor syntax does not parse inside == in this version of the macros)'])
