"""C04 — Reordering conjuncts or disjuncts preserves the answer multiset (Engine M, whole programs)."""
import progprop
import tmpl
from progprop import replay


def run(tier):
    return progprop.run('C04', tier, tmpl.permutations_family(6 if tier == 'quick' else 24), 'c04',
                        'For base programs mixing ==, !=, finite-domain constraints, fresh variables, member and conde, every listed permutation of the goals of '
                        'the conjunction (resp. of the clauses of the disjunction) is its own template, executed symbolically from MIR; each must produce exactly '
                        'the multiset of answers that the reference interpreter gives for the BASE order.')
