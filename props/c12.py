"""C12 — for/everyg is the conjunction of its body over the collection (Engine M, whole programs)."""
import progprop
import tmpl
from progprop import replay


def run(tier):
    return progprop.run('C12', tier, tmpl.for_everyg(), 'c12',
                        '`for x in &coll { body }` (real macro expansion, real Everyg::solve / InferredConj::from_iter) over Vec and LTerm-list collections of '
                        '0..3 elements (Rust-created variables, shared variables, ground and `[]` elements) is executed symbolically from MIR; its answers must '
                        'equal the reference conjunction of the body over the elements (empty collection: exactly one answer).')
