"""C18, Engine M part — the FiniteDomain operations CBMC does not finish (`diff`, `==`, sparse/sparse
`intersect`, plus `is_disjoint`, `copy_before`/`drop_before` and iteration again as a cross-check
of the Kani part) executed from the MIR of fd.rs.

Operands: `Interval(lo..=hi)` with symbolic bounds inside a window, or sparse domains built by the real
`From<Vec<isize>>` from vectors of concrete length 1..3 with symbolic (unsorted, possibly duplicated)
elements.  Oracle: membership of one symbolic probe value k in the raw representation of the
result versus membership in the set-theoretic result computed from the inputs; `None` iff empty;
`==` iff equal membership for every k (decided by z3 with k universally quantified via its negation).
"""
import os
import re
import time

import z3

import interp
import harness as H
import mirgen
import parallel
import kanirun
from common import log, say, VERIF, REPO
from values import Adt, Cell, Ref, Panic, NotEncodable, PathAbort, is_sym
from models import val, drain_all

FUNCS = ['state::fd::FiniteDomain::{diff, intersect, is_disjoint, copy_before, drop_before, iter, min, max, is_singleton, contains} (MIR)',
         '<FiniteDomain as PartialEq>::eq (MIR)', '<FiniteDomain as From<Vec<isize>>>::from (MIR)', '<FiniteDomainIter as Iterator>::next (MIR)']


def mk_domain(m, kind, W, tag):
    ctx = m.ctx
    if kind == 'i':
        lo, hi = ctx.fresh_bv(tag + 'lo'), ctx.fresh_bv(tag + 'hi')
        ctx.assume(z3.And(lo >= -W, hi <= W, lo <= hi))
        rng = Adt('RangeInclusive', 0, (lo, hi, False))
        d = m.call('<FiniteDomain as From<std::ops::RangeInclusive<isize>>>::from', [rng])
        return d, ('i', lo, hi)
    n = int(kind[1])
    xs = []
    for i in range(n):
        x = ctx.fresh_bv('%sx%d' % (tag, i))
        ctx.assume(z3.And(x >= -W, x <= W))
        xs.append(x)
    d = m.call('<FiniteDomain as From<Vec<isize>>>::from', [Adt('Vec', 0, xs)])
    return d, ('s', xs)


def spec_mem(spec, k):
    if spec[0] == 'i':
        return z3.And(spec[1] <= k, k <= spec[2])
    return z3.Or(*[x == k for x in spec[1]])


def raw_mem(m, d, k):
    """membership of k in the raw representation of a FiniteDomain value"""
    d = val(m, d)
    names = m.p.enums['FiniteDomain']
    if names[d.var] == 'Interval':
        r = val(m, d.fields[0])
        lo, hi, ex = r.fields
        if ex is True:
            raise NotEncodable('exhausted range inside a domain')
        return z3.And(H.bv(lo) <= k, k <= H.bv(hi)), z3.BoolVal(True) if not (is_sym(lo) or is_sym(hi)) else (H.bv(lo) <= H.bv(hi))
    v = val(m, d.fields[0])
    items = [H.bv(val(m, x)) for x in v.fields]
    return (z3.Or(*[x == k for x in items]) if items else z3.BoolVal(False)), z3.BoolVal(len(items) > 0)


def scenario(m, cfg):
    ctx = m.ctx
    W = cfg['W']
    a, sa = mk_domain(m, cfg['a'], W, 'a')
    b, sb = mk_domain(m, cfg['b'], W, 'b')
    k = ctx.fresh_bv('k')
    t = ctx.fresh_bv('t')
    checks = []
    op = cfg['op']
    info = {'checks': checks, 'sa': sa, 'sb': sb, 'k': k, 't': t, 'cfg': cfg}
    m.last_info = info

    def option_result(r, spec_k, what):
        r = val(m, r)
        if r.var == 0:
            checks.append((what + ': None although the result set is not empty', z3.Not(spec_k)))
        else:
            mem, nonempty = raw_mem(m, r.fields[0], k)
            checks.append((what + ': membership differs from set semantics', mem == spec_k))
            checks.append((what + ': Some(empty domain)', nonempty))
    if op == 'diff':
        option_result(m.call('FiniteDomain::diff::<&FiniteDomain>', [H.ref(a), H.ref(b)]), z3.And(spec_mem(sa, k), z3.Not(spec_mem(sb, k))), 'diff')
    elif op == 'intersect':
        option_result(m.call('FiniteDomain::intersect::<&FiniteDomain>', [H.ref(a), H.ref(b)]), z3.And(spec_mem(sa, k), spec_mem(sb, k)), 'intersect')
    elif op == 'eq':
        r = m.call('<FiniteDomain as PartialEq>::eq', [H.ref(a), H.ref(b)])
        g = r if is_sym(r) else z3.BoolVal(bool(r))
        # r true  => equal membership for the probe k ;  r false => the sets differ for SOME value (witness from the window)
        checks.append(('==: true although the sets differ', z3.Or(z3.Not(g), spec_mem(sa, k) == spec_mem(sb, k))))
        same_all = z3.And(*[spec_mem(sa, z3.BitVecVal(v, 64)) == spec_mem(sb, z3.BitVecVal(v, 64)) for v in range(-W, W + 1)])
        checks.append(('==: false although the sets are equal', z3.Or(g, z3.Not(same_all))))
    elif op == 'disjoint':
        r = m.call('FiniteDomain::is_disjoint::<&FiniteDomain>', [H.ref(a), H.ref(b)])
        g = r if is_sym(r) else z3.BoolVal(bool(r))
        checks.append(('is_disjoint: true although a common element exists', z3.Or(z3.Not(g), z3.Not(z3.And(spec_mem(sa, k), spec_mem(sb, k))))))
        common = z3.Or(*[z3.And(spec_mem(sa, z3.BitVecVal(v, 64)), spec_mem(sb, z3.BitVecVal(v, 64))) for v in range(-W, W + 1)])
        checks.append(('is_disjoint: false although no common element exists', z3.Or(z3.Not(g), z3.Not(common)) if False else z3.Or(g, common)))
    elif op == 'iter':
        it = m.call('FiniteDomain::iter', [H.ref(a)])
        xs = [H.bv(val(m, x)) for x in drain_all(m, it)]
        for i, x in enumerate(xs):
            checks.append(('iter: yields a non-member', spec_mem(sa, x)))
            if i:
                checks.append(('iter: not strictly ascending', xs[i - 1] < x))
        checks.append(('iter: misses a member', z3.Or(z3.Not(spec_mem(sa, k)), z3.Or(*[x == k for x in xs]) if xs else z3.BoolVal(False))))
    return info


def check_task(task):
    cfg, mirp = task
    prog = H.program(mirp, REPO)
    mk, mods = H.machine_factory(prog)
    out = {'name': cfg['name'], 'issues': [], 'queries': 0, 'solver_s': 0.0, 'unknown': 0, 'called': set(), 'paths_ok': 0}

    def on_path(r):
        ctx = r.ctx
        out['called'].update(r.machine.called)
        info = r.value if r.status == 'ok' else getattr(r.machine, 'last_info', None)
        if r.status in ('notenc', 'abort') or info is None:
            return

        def concrete(model):
            def v(x):
                return H.model_int(model, x)
            doms = []
            for sp in (info['sa'], info['sb']):
                doms.append(('i', v(sp[1]), v(sp[2])) if sp[0] == 'i' else ('s', [v(x) for x in sp[1]]))
            return doms, v(info['k'])
        if r.status == 'panic':
            rr, model = ctx.query()
            if rr == z3.sat:
                doms, kk = concrete(model)
                out['issues'].append(('panic', '%s panics (%s) on %s' % (cfg['op'], r.detail[:80], doms), doms, kk))
            return
        out['paths_ok'] += 1
        for what, cond in info['checks']:
            out['queries'] += 1
            t0 = time.time()
            rr, model = ctx.query(z3.Not(cond), fresh=True)
            out['solver_s'] += time.time() - t0
            if rr == z3.unknown:
                out['unknown'] += 1
            if rr == z3.sat:
                key = what.split(':')[0] + ':' + re.sub(r'[^a-z]+', '_', what.split(':', 1)[1].strip())[:40]
                if not any(i[0] == key for i in out['issues']):
                    doms, kk = concrete(model)
                    out['issues'].append((key, '%s on %s (probe value %d)' % (what, doms, kk), doms, kk))
    stats = interp.explore(mk, lambda m: scenario(m, cfg), on_path=on_path, time_budget=900)
    out['stats'] = {k: stats[k] for k in ('paths', 'ok', 'panic', 'notenc', 'abort', 'solver_calls', 'steps', 'truncated', 'wall_s')}
    out['notenc_reasons'] = stats['notenc_reasons']
    return out


def dom_src(d):
    if d[0] == 'i':
        return 'FiniteDomain::from(%d..=%d)' % (d[1], d[2])
    return 'FiniteDomain::from(vec![%s])' % ', '.join(str(x) for x in d[1])


def case_source(op, doms, k, what, path):
    return '''// Counterexample found by mirsym/z3 for property C18: %s
// Replay: /verif/check C18 --replay %s
use proto_vulcan::state::FiniteDomain;
use std::collections::BTreeSet;

fn set(d: &[isize]) -> BTreeSet<isize> { d.iter().cloned().collect() }
fn members(spec: &str, lo: isize, hi: isize, v: &[isize]) -> BTreeSet<isize> {
    if spec == "i" { (lo..=hi).collect() } else { set(v) }
}
fn raw(d: &Option<FiniteDomain>) -> BTreeSet<isize> {
    match d { None => BTreeSet::new(), Some(FiniteDomain::Interval(r)) => (*r.start()..=*r.end()).collect(), Some(FiniteDomain::Sparse(v)) => set(v) }
}

#[test]
fn replay() {
    let a = %s;
    let b = %s;
    let sa: BTreeSet<isize> = %s;
    let sb: BTreeSet<isize> = %s;
    let op = "%s";
    if op == "diff" {
        let r = a.diff(&b);
        assert_eq!(raw(&r), sa.difference(&sb).cloned().collect::<BTreeSet<_>>());
        if let Some(FiniteDomain::Sparse(v)) = &r { assert!(!v.is_empty()); }
    } else if op == "intersect" {
        let r = a.intersect(&b);
        assert_eq!(raw(&r), sa.intersection(&sb).cloned().collect::<BTreeSet<_>>());
    } else if op == "eq" {
        assert_eq!(a == b, sa == sb);
    } else if op == "disjoint" {
        assert_eq!(a.is_disjoint(&b), sa.is_disjoint(&sb));
    } else {
        let xs: Vec<isize> = a.iter().collect();
        assert_eq!(xs, sa.iter().cloned().collect::<Vec<_>>());
    }
}
''' % (what.replace('\n', ' '), path, dom_src(doms[0]), dom_src(doms[1]),
       ('(%d..=%d).collect()' % (doms[0][1], doms[0][2])) if doms[0][0] == 'i' else 'set(&[%s])' % ', '.join(map(str, doms[0][1])),
       ('(%d..=%d).collect()' % (doms[1][1], doms[1][2])) if doms[1][0] == 'i' else 'set(&[%s])' % ', '.join(map(str, doms[1][1])), op)


def configs(tier):
    W = 2 if tier == 'quick' else 4
    kinds = ['i', 's1', 's2', 's3'] if tier == 'quick' else ['i', 's1', 's2', 's3', 's4']
    cf = []
    for op in ('diff', 'eq', 'intersect', 'disjoint'):
        for a in kinds:
            for b in kinds:
                if 's4' in (a, b) and (a in ('s3', 's4') and b in ('s3', 's4')):
                    continue      # > 10^5 paths: outside the bound
                if tier == 'quick' and a == 's3' and b == 's3':
                    continue      # thorough tier only (100 s each)
                cf.append(dict(name='m_%s_%s_%s' % (op, a, b), op=op, a=a, b=b, W=W))
    for a in kinds:
        cf.append(dict(name='m_iter_%s' % a, op='iter', a=a, b='s1', W=W))
    return cf


def run_part(tier, rep):
    rep.functions += FUNCS
    rep.assumptions += ['Engine M part: MIR of fd.rs executed by mirsym; Vec, RangeInclusive, slice iteration, sort/dedup, binary_search are models; window |v| <= 2 (quick) / 4 (thorough); sparse operands of 1..3 (quick) / 1..4 (thorough; not 4 against 3 or 4) elements']
    mirp = mirgen.dump_mir()
    H.program(mirp, REPO)
    cfgs = configs(tier)
    results = parallel.pmap(check_task, [(c, mirp) for c in cfgs])
    paths = 0
    for cfg, (st, res) in zip(cfgs, results):
        name = 'C18.' + cfg['name']
        if st != 'ok':
            rep.obligation(name, 'inconclusive', detail='worker error: ' + res[:300])
            continue
        rep.functions += sorted(res['called'])
        paths += res['stats']['paths']
        bound = dict(window=cfg['W'], operands='%s x %s' % (cfg['a'], cfg['b']), paths=res['stats']['paths'], z3_queries=res['queries'] + res['stats']['solver_calls'],
                     solver_s=round(res['solver_s'], 2), wall_s=res['stats']['wall_s'])
        if res['stats']['notenc'] or res['stats']['truncated'] or res['unknown']:
            rep.obligation(name, 'inconclusive', detail='notenc=%s unknown=%d truncated=%s' % (list(res['notenc_reasons'].items())[:2], res['unknown'], res['stats']['truncated']), **bound)
            continue
        if not res['paths_ok']:
            rep.obligation(name, 'broken', detail='no path completed', **bound)
            rep.broke(name + ': no path completed')
            continue
        status = 'holds'
        for key, what, doms, kk in res['issues']:
            fullkey = '%s | %s' % (cfg['name'], key)
            case = os.path.join(VERIF, 'replay', 'cases', 'C18-%s.rs' % re.sub(r'[^A-Za-z0-9]+', '_', fullkey))
            os.makedirs(os.path.dirname(case), exist_ok=True)
            open(case, 'w').write(case_source(cfg['op'], doms, kk, what, case))
            outc = kanirun.replay_case(case)
            rep.extra['replayed'] = rep.extra.get('replayed', 0) + 1
            tail = '; '.join('%s: %s' % (p, t[:160].replace('\n', ' ')) for p, (okk, t) in outc.items())
            if any(okk for okk, _ in outc.values()):
                new = rep.violation(fullkey, what + ' [native replay: %s]' % tail, case)
                status = 'violated' if new else ('known' if status == 'holds' else status)
            else:
                status = 'broken'
                rep.broke('ENCODING-MISMATCH %s: %s | %s' % (fullkey, what, tail))
        rep.obligation(name, status, issues=[i[0] for i in res['issues']], **bound)
    rep.extra['states'] = rep.extra.get('states', 0) + paths
    try:
        os.remove(mirp)
    except OSError:
        pass
