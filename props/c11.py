"""C11 — project sees the current value of projected variables in every branch (Engine M, whole programs)."""
import progprop
import tmpl
from progprop import replay


def run(tier):
    return progprop.run('C11', tier, tmpl.project_ops(), 'c11',
                        '`project |x| { body }` with a non-relational observer goal (a Solve impl in the template crate that looks at its argument term itself) '
                        'is executed symbolically from MIR: reached by one state, through variable chains and nested lists, and by two states (conde / member '
                        'before it, with and without a closure wrapper); answers and panic-freedom are compared with the reference (x = walk* of x in the state that reaches the goal).',
                        extra_assume=['LTerm::project\'s unsafe in-place overwrite is executed as an ordinary assignment through the pointer (value semantics); '
                                      'aliasing effects of the shared cell are therefore seen only where the same goal object is reached again'])
