"""C16/C17 — CLP(FD) answers satisfy every constraint; labeling returns every solution exactly once (Engine M)."""
import progprop
import tmpl
from progprop import replay


def run(tier, prop='C16'):
    return progprop.run(prop, tier, tmpl.finite_domains(tier), prop.lower(),
                        'CLP(FD) programs (infd / infdrange over small signed interval and sparse domains; ltefd, ltfd, plusfd, minusfd, timesfd, diseqfd, '
                        'distinctfd with operand aliasing, symbolic integer constants, constraints posted before and after domains and unifications, hidden '
                        'variables, list-shaped query terms) are executed symbolically from MIR through propagation and labeling (reify / force_ans / map_sum / '
                        'onceo) and compared, as multisets of ground answers, with brute-force enumeration of the domain product in the reference interpreter: '
                        'no answer violates a constraint (C16) and every solution is returned exactly once (C17).',
                        extra_assume=['domains are concrete (values within -4..10); the constants of constraints are symbolic in the window'])
