"""C15 — Fresh variables are distinct and renaming-invariant (shares the syntax/scoping templates of C14)."""
import c14
from progprop import replay


def run(tier):
    return c14.run(tier, 'C15')
