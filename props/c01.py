"""C01 — Unification computes a most general unifier, with occurs check (Engine M).

Scenario: from the empty state, k <= K equations `u_i == v_i` are solved in sequence by the real
`State::unify`; all terms are lazily symbolic (shape decided where the code inspects it, depth
bound D, variables from a pool of three, symbolic number leaves, optionally `[]`, booleans,
strings, improper lists and the crate's tuple compound).  Earlier equations produce the
"prior bindings reachable by earlier unifications".

Oracle, per feasible path, with sigma a *symbolic ground substitution* (one z3 datatype constant
per variable; un-inspected sub-terms are unconstrained ground terms), decided by z3:
  (S-complete) a failing step  =>  no sigma solves all equations up to that step
  (S-sound)    success with substitution S  =>  every sigma solving S's binding equations solves E
  (S-mgu)      success  =>  every sigma solving E solves S's binding equations
               (with S acyclic this says S is a most general unifier)
  (S-occurs)   S is acyclic: no variable reaches itself through the bindings
"""
import os
import re
import time

import z3

import interp
import harness as H
import terms as TM
import mirgen
import parallel
import kanirun
from common import Report, log, say, VERIF, REPO
from values import Adt, Cell, Ref, Panic, NotEncodable, PathAbort, is_sym
from models import val

FUNCS = ['state::State::{new, unify, process_extension*, run_constraints}', 'state::unification::{unify_rec, unify_rec_compound}',
         'state::substitution::SMap::{new, walk, extend, occurs_check, occurs_check_compound, is_empty}',
         'lterm::{<LTerm as PartialEq>::eq, <LTerm as AsRef>::as_ref, <LTerm as Clone>::clone, LTerm::var, VarID::new, <VarID as PartialEq>::eq}',
         'lvalue::<LValue as PartialEq>::eq', 'compound::{<(LTerm, LTerm) as CompoundObject>::children, <LTerm as CompoundObject>::{as_term, is_term}}']

ASSUME = ['MIR of /repo executed with value semantics for Rc/Box (unify_rec only reads terms and moves the State)',
          'std models: HashMap as association list with the crate\'s own PartialEq/Hash-consistent key equality; iterators; Any::type_id by runtime type',
          'U = DefaultUser (User::unify default: user terms never unify), E = StreamEngine',
          'terms: depth <= D, variables x,y,z, leaves: symbolic isize numbers, [] (plus booleans/strings/tuple compounds in the wider alphabets)']


def scenario(m, cfg):
    ctx = m.ctx
    sp = TM.TermSpace(m, names=cfg['names'], atoms=cfg['atoms'], compounds=cfg['compounds'])
    m.space = sp
    state = H.new_state(m)
    eqs = []
    info = {'eqs': eqs, 'failed_at': None, 'space': sp}
    m.last_info = info
    for i in range(cfg['k']):
        u = sp.fresh(cfg['depth'], 'u%d' % i)
        v = sp.fresh(cfg['depth'], 'v%d' % i)
        eqs.append((u, v))
        r = val(m, m.call('State::<U, E>::unify', [state, H.ref(u), H.ref(v)]))
        if r.var != 0:
            info['failed_at'] = i
            return info
        state = r.fields[0]
    info['state'] = state
    return info


def check_task(task):
    cfg, mirp = task[0], task[1]
    initial = task[2] if len(task) > 2 else None
    frontier_target = task[3] if len(task) > 3 else None
    prog = H.program(mirp, REPO)
    mk, mods = H.machine_factory(prog)
    out = {'name': cfg['name'], 'issues': [], 'covers': set(), 'queries': 0, 'solver_s': 0.0, 'unknown': 0,
           'called': set(), 'samples': []}

    def ask(ctx, *extra):
        out['queries'] += 1
        t = time.time()
        r, model = ctx.query(*extra, fresh=True, long_ms=60000)
        out['solver_s'] += time.time() - t
        if r == z3.unknown:
            out['unknown'] += 1
        return r, model

    def add_issue(key, what, info, model, sigma, ground_vars, expect):
        if any(k == key for k, *_ in out['issues']):
            return
        sp = info['space']
        goals = []
        for (u, v) in info['eqs']:
            goals.append('%s == %s' % (TM.rust_of_view(sp, sp.view(u), model, sigma), TM.rust_of_view(sp, sp.view(v), model, sigma)))
        if ground_vars:
            for n in sp.names:
                goals.append('%s == %s' % (n, TM.rust_of_value(model, sigma.of_var([vid for vid, nn in sp.var_ids.items() if nn == n][0]))))
        out['issues'].append((key, what, goals, list(sp.names), expect))

    def on_path(r):
        ctx = r.ctx
        out['called'].update(r.machine.called)
        if r.status in ('notenc', 'abort'):
            return
        if r.status == 'panic':
            info = getattr(r.machine, 'last_info', None)
            rr, model = ask(ctx)
            if rr == z3.sat and info is not None:
                add_issue('panic', 'unification panics: %s' % r.detail[:100], info, model, TM.Sigma(info['space']), False, -1)
            return
        info = r.value
        sp = info['space']
        sig = TM.Sigma(sp)
        views = [(sp.view(u), sp.view(v)) for (u, v) in info['eqs']]
        E = [sig.ground(a) == sig.ground(b) for a, b in views]
        if info['failed_at'] is not None:
            out['covers'].add('fail')
            rr, model = ask(ctx, *E)
            if rr == z3.sat:
                add_issue('incomplete', 'unification fails although a unifier exists', info, model, sig, True, 1)
            return
        out['covers'].add('ok')
        ent = TM.smap_views(sp, r.machine, info['state'])
        binds = TM.subst_views(ent)
        if binds:
            out['covers'].add('bound')
        S = [sig.of_var(k) == sig.ground(v) for k, v in binds.items()]
        if TM.occurs_cycle(binds):
            rr, model = ask(ctx)
            add_issue('cyclic', 'a binding that makes a term contain itself was accepted', info, model, sig, False, 0)
            return
        # sound: sigma |= S  =>  sigma |= E
        rr, model = ask(ctx, z3.And(*S) if S else z3.BoolVal(True), z3.Not(z3.And(*E)))
        if rr == z3.sat:
            add_issue('unsound', 'after success the two sides of an equation still differ under an instance of the answer', info, model, sig, True, 0)
        # most general: sigma |= E  =>  sigma |= S
        if S:
            rr, model = ask(ctx, z3.And(*E), z3.Not(z3.And(*S)))
            if rr == z3.sat:
                add_issue('not-mgu', 'the answer is not most general: a unifier is not an instance of it', info, model, sig, True, 1)
        if len(out['samples']) < 3:
            out['samples'].append({'config': cfg['name'], 'equations': [[str(a)[:80], str(b)[:80]] for a, b in views],
                                   'bindings': {str(sp.name_of(k)): str(v)[:80] for k, v in binds.items()}})
    stats = interp.explore(mk, lambda m: scenario(m, cfg), on_path=on_path, time_budget=cfg.get('budget', 1200), initial=initial,
                           frontier_target=frontier_target)
    out['frontier'] = stats['frontier']
    out['stats'] = {k: stats[k] for k in ('paths', 'ok', 'panic', 'notenc', 'abort', 'solver_calls', 'steps', 'truncated', 'wall_s')}
    out['notenc_reasons'] = stats['notenc_reasons']
    return out


def case_source(prop, goals, names, expect, what, path):
    body = ',\n            '.join(['q == 0'] + goals)
    return """// Counterexample found by mirsym/z3 for property %s: %s
// Replay: /verif/check %s --replay %s   (runs this program natively against /repo)
use proto_vulcan::prelude::*;

#[test]
fn replay() {
    let query = proto_vulcan_query!(|q| {
        |%s| {
            %s
        }
    });
    let n = query.run().count() as isize;
    let expected: isize = %d; // -1: any number of answers, but no panic
    assert!(expected < 0 || n == expected, "number of answers {} (expected {})", n, expected);
}
""" % (prop, what.replace('\n', ' '), prop, path, ', '.join(names), body, expect)


def configs(tier):
    base = dict(names=('x', 'y', 'z'), atoms=('num', 'nil'), compounds=('cons',), frontier=2000)
    wide = ('num', 'nil', 'bool', 'str:a', 'str:b')
    cf = []
    if tier == 'quick':
        cf.append(dict(base, name='k1-d2-lists-xy', k=1, depth=2, names=('x', 'y')))
        cf.append(dict(base, name='k2-d1-lists-xy', k=2, depth=1, names=('x', 'y')))
        cf.append(dict(base, name='k1-d1-pairs-xyz', k=1, depth=1, compounds=('cons', 'pair'), atoms=wide))
        cf.append(dict(base, name='k3-d0-atoms-xyz', k=3, depth=0))
        cf.append(dict(base, name='k2-d1-pairs-xy', k=2, depth=1, names=('x', 'y'), compounds=('pair',), atoms=('num',)))
    else:
        cf.append(dict(base, name='k1-d2-lists-xyz', k=1, depth=2, budget=6000))
        cf.append(dict(base, name='k2-d1-lists-xyz', k=2, depth=1, budget=6000))
        cf.append(dict(base, name='k1-d2-pairs-xy', k=1, depth=2, names=('x', 'y'), compounds=('cons', 'pair'), atoms=('num', 'nil'), budget=6000))
        cf.append(dict(base, name='k1-d1-pairs-xyz', k=1, depth=1, compounds=('cons', 'pair'), atoms=wide))
        cf.append(dict(base, name='k3-d0-atoms-xyz', k=3, depth=0, atoms=wide))
        cf.append(dict(base, name='k2-d1-pairs-xy', k=2, depth=1, names=('x', 'y'), compounds=('cons', 'pair'), atoms=('num', 'nil'), budget=6000))
        cf.append(dict(base, name='k3-d1-lists-xy', k=3, depth=1, names=('x', 'y'), atoms=('num',), budget=6000))
    return cf


def merge(outs):
    res = {'name': outs[0]['name'], 'issues': [], 'covers': set(), 'queries': 0, 'solver_s': 0.0, 'unknown': 0,
           'called': set(), 'samples': [], 'notenc_reasons': {},
           'stats': {'paths': 0, 'ok': 0, 'panic': 0, 'notenc': 0, 'abort': 0, 'solver_calls': 0, 'steps': 0, 'truncated': False, 'wall_s': 0.0}}
    for o in outs:
        for i in o['issues']:
            if not any(i[0] == j[0] for j in res['issues']):
                res['issues'].append(i)
        res['covers'] |= o['covers']
        res['called'] |= o['called']
        res['samples'] += o['samples'][:1]
        for k in ('queries', 'solver_s', 'unknown'):
            res[k] += o[k]
        for k, v in o['notenc_reasons'].items():
            res['notenc_reasons'][k] = res['notenc_reasons'].get(k, 0) + v
        for k in ('paths', 'ok', 'panic', 'notenc', 'abort', 'solver_calls', 'steps', 'wall_s'):
            res['stats'][k] += o['stats'][k]
        res['stats']['truncated'] = res['stats']['truncated'] or o['stats']['truncated']
    return res


def run_config(cfg, mirp, task_fn=None):
    """Seed stage (shortest prefixes first, one worker) then all pending sub-trees in parallel."""
    task_fn = task_fn or check_task
    t0 = time.time()
    seed = parallel.pmap(task_fn, [(cfg, mirp, None, cfg.get('frontier', 256))], jobs=2)[0]
    if seed[0] != 'ok':
        return seed
    outs = [seed[1]]
    frontier = seed[1]['frontier']
    if frontier:
        chunk = max(1, len(frontier) // 128)
        groups = [frontier[i:i + chunk] for i in range(0, len(frontier), chunk)]
        rest = parallel.pmap(task_fn, [(cfg, mirp, g) for g in groups])
        for st, r in rest:
            if st != 'ok':
                return (st, r)
            outs.append(r)
    res = merge(outs)
    res['stats']['wall_s'] = round(time.time() - t0, 2)
    return ('ok', res)


def replay(path):
    out = kanirun.replay_case(path)
    for prof, (okk, tail) in out.items():
        say('replay[%s]: %s %s' % (prof, 'REPRODUCED' if okk else 'not reproduced', tail))
    return 1 if any(okk for okk, _ in out.values()) else 0


def run(tier, prop='C01', cfgs=None, explanation=None):
    rep = Report(prop, tier, 'other', 'mirsym')
    rep.functions += FUNCS
    rep.assumptions += ASSUME
    mirp = mirgen.dump_mir()
    H.program(mirp, REPO)
    cfgs = cfgs or configs(tier)
    results = [run_config(c, mirp) for c in cfgs]
    called = set()
    tot_paths = tot_steps = 0
    for cfg, (st, res) in zip(cfgs, results):
        name = '%s.%s' % (prop, cfg['name'])
        if st != 'ok':
            rep.obligation(name, 'inconclusive', detail='worker error: ' + res[:300])
            continue
        called |= res['called']
        tot_paths += res['stats']['paths']
        tot_steps += res['stats']['steps']
        bound = dict(equations=cfg['k'], depth=cfg['depth'], alphabet=list(cfg['atoms']) + list(cfg['compounds']), variables=list(cfg['names']),
                     paths=res['stats']['paths'], z3_queries=res['queries'] + res['stats']['solver_calls'],
                     solver_s=round(res['solver_s'], 2), wall_s=res['stats']['wall_s'])
        if res['stats']['notenc'] or res['stats']['truncated'] or res['unknown']:
            rep.obligation(name, 'inconclusive', detail='notenc=%s unknown=%d truncated=%s' % (
                list(res['notenc_reasons'].items())[:3], res['unknown'], res['stats']['truncated']), **bound)
            continue
        if not {'ok', 'fail', 'bound'} <= res['covers']:
            rep.obligation(name, 'broken', detail='vacuity: covers met %s' % sorted(res['covers']), **bound)
            rep.broke('%s never reached %s' % (name, {'ok', 'fail', 'bound'} - res['covers']))
            continue
        status = 'holds'
        for (key, what, goals, names, expect) in res['issues']:
            fullkey = '%s | %s' % (cfg['name'], key)
            case = os.path.join(VERIF, 'replay', 'cases', '%s-%s.rs' % (prop, re.sub(r'[^A-Za-z0-9]+', '_', fullkey)))
            what_full = '%s e.g. %s' % (what, ', '.join(goals))
            os.makedirs(os.path.dirname(case), exist_ok=True)
            open(case, 'w').write(case_source(prop, goals, names, expect, what_full, case))
            out = kanirun.replay_case(case)
            rep.extra['replayed'] = rep.extra.get('replayed', 0) + 1
            reproduced = any(okk for okk, _ in out.values())
            tail = '; '.join('%s: %s' % (p, t[:160].replace('\n', ' ')) for p, (okk, t) in out.items())
            if reproduced:
                new = rep.violation(fullkey, what_full + ' [native replay: %s]' % tail, case)
                status = 'violated' if new else ('known' if status == 'holds' else status)
            else:
                status = 'broken'
                rep.broke('ENCODING-MISMATCH %s: %s | %s' % (fullkey, what_full, tail))
        rep.obligation(name, status, issues=[i[0] for i in res['issues']], **bound)
        rep.samples += res['samples'][:2]
    if prop == 'C01':
        # whole-program part: unification / occurs check through compound objects (tuples, #[compound] structs, Option fields, lists
        # stored in compound fields) decided like the program templates of the other properties
        import progrun
        import tmpl
        ts = [t for t in tmpl.compounds() + tmpl.compound_structs() if any(w in t[0] for w in ('unify', 'occurs', 'option', 'type_mismatch', 'vs_list', 'recursive', 'typed_var'))]
        progrun.run_templates(rep, prop, ts, 'c01p', window=3)
    rep.functions += sorted(called)
    rep.extra['states'] = tot_paths
    rep.extra['transitions'] = tot_steps
    try:
        os.remove(mirp)
    except OSError:
        pass
    return rep.finish(explanation or (
        'Symbolic execution of the MIR of State::unify / unify_rec / SMap::{walk, occurs_check, extend} on lazily '
        'initialised symbolic terms: every feasible path (term shapes as inspected by the code, all number values) is '
        'checked with z3 against the definition of a most general unifier, quantifying over all ground substitutions as '
        'values of an algebraic datatype: failure => no unifier, success => answer sound, most general and acyclic. '
        'Bounded by term depth, three variables and <= 3 sequential equations; not a proof.'),
        trusted_base=['mirsym MIR executor + std models', 'z3 5.1 (datatypes + bit-vectors)', 'rustc nightly MIR dump'],
        checker_cmd='cargo +nightly rustc --lib -- -Zunpretty=mir ; python3-vt mirsym (z3)')
