"""C19 — CLP(Z) plusz/timesz constrain integers exactly (Engine M: MIR symbolic execution).

Scenario (all numbers are solver variables inside the window, operand kinds / aliasing /
binding order are path forks of the executor):

    state0 = State::new()
    goal   = plusz|timesz(o1, o2, o3)        each o_i in {number n_i, x, y, z}  (aliasing allowed)
    s1     = Goal::solve(goal, state0)       -- the real relation constructor + Solve impl
    for every variable operand, in every order:   s_{k+1} = State::unify(s_k, var, number m_var)

Oracle, per path, decided by z3 over the path condition:
  * final Ok   =>  the equation holds on the final integer values            (soundness)
  * any Err    =>  the equation does not hold                                (no solution lost)
  * no panic on any feasible path (window keeps every intermediate inside isize)
  * after posting with exactly two ground operands and a third, distinct variable: if a unique
    integer solution exists the variable walks to exactly that number; if every integer works
    (timesz with zero factor and zero product) the goal succeeds and the variable stays unbound
"""
import itertools
import os
import re
import sys
import time

import z3

import interp
import harness as H
import mirgen
from common import Report, log, say, VERIF, REPO
from values import Adt, Cell, Ref, Panic, NotEncodable, PathAbort, is_sym
from models import val
import kanirun

FUNCS = ['relation::clpz::plusz::{plusz, PlusZ::new, <PlusZ as Solve>::solve, PlusZConstraint::new, <PlusZConstraint as Constraint>::run}',
         'relation::clpz::timesz::{timesz, TimesZ::new, <TimesZ as Solve>::solve, TimesZConstraint::new, <TimesZConstraint as Constraint>::run}',
         'state::State::{new, unify, process_extension*, run_constraints, with_constraint, take_constraint, smap_ref, smap_to_mut}',
         'state::unification::unify_rec', 'state::substitution::SMap::{walk, extend, occurs_check}',
         'state::constraint::store::ConstraintStore::{push_and_normalize, take, insert, iter}',
         'goal::Goal::solve', 'lterm::LTerm::{var, from<isize>, as_ref, clone, eq, is_var, is_number}']

ASSUME = ['MIR of /repo (nightly -Zunpretty=mir, overflow-checks=on) executed with value semantics for Rc/Box',
          'std models: HashMap/HashSet as association lists (key equality = the crate\'s own PartialEq run through the executor), Vec, Option/Result, integer arithmetic with Rust overflow semantics',
          'U = DefaultUser, E = StreamEngine, G = Goal; the Solver argument of Solve::solve is an opaque token (PlusZ/TimesZ::solve do not use it)',
          'numbers range over the stated window (plusz-only programs: |n| <= 12 quick / 100 thorough; programs with timesz: |n| <= 4 quick / 12 thorough; bound values up to W*W+W); operands are numbers or one of three variables']


# ---------------------------------------------------------------------------------------------
# Program specifications: {'pre': alias|None, 'cons': [(rel, pattern)], 'mid': alias|None}
# pattern = 3 operand kinds out of 'N', 'x', 'y', 'z'; alias = (a, b) meaning the goal `a == b`
# ---------------------------------------------------------------------------------------------

def canonical_patterns(allow_repeat=True):
    """Operand patterns up to renaming of variables (first new variable is x, then y, z)."""
    out = []

    def rec(prefix, used):
        if len(prefix) == 3:
            out.append(tuple(prefix))
            return
        rec(prefix + ['N'], used)
        for i in range(min(used + 1, 3)):
            name = 'xyz'[i]
            if not allow_repeat and name in prefix:
                continue
            rec(prefix + [name], max(used, i + 1))
    rec([], 0)
    return out


def all_patterns_over(names):
    out = []
    for a in ['N'] + names:
        for b in ['N'] + names:
            for c in ['N'] + names:
                out.append((a, b, c))
    return out


def programs(tier):
    progs = []
    rels = ('plusz', 'timesz')
    # S1: one constraint, every pattern incl. aliasing inside the constraint
    for rel in rels:
        for pat in canonical_patterns(True):
            progs.append({'kind': 'S1', 'pre': None, 'cons': [(rel, pat)], 'mid': None})
    # S2: a variable-variable unification before or after posting
    for rel in rels:
        for pat in canonical_patterns(False):
            vs = sorted({o for o in pat if o != 'N'})
            if not vs:
                continue
            extra = 'xyz'[len(vs)] if len(vs) < 3 else None
            pairs = [(a, b) for a in vs for b in vs if a != b]
            if extra:
                for a in vs:
                    pairs += [(a, extra), (extra, a)]
            for pr in pairs:
                for place in ('pre', 'mid'):
                    progs.append({'kind': 'S2', 'pre': pr if place == 'pre' else None, 'cons': [(rel, pat)],
                                  'mid': pr if place == 'mid' else None})
    # S3: two constraints sharing a variable, the first one suspended (>= 2 variables)
    firsts = [p for p in canonical_patterns(False) if sum(1 for o in p if o != 'N') >= 2]
    for r1 in rels:
        for r2 in rels:
            for p1 in firsts:
                v1 = {o for o in p1 if o != 'N'}
                for p2 in all_patterns_over(['x', 'y', 'z']):
                    v2 = [o for o in p2 if o != 'N']
                    if len(set(v2)) != len(v2) or not (set(v2) & v1):
                        continue
                    # new variables of the second constraint must be introduced in order
                    newv = [o for o in v2 if o not in v1]
                    expect = [n for n in 'xyz' if n not in v1][:len(newv)]
                    if newv != expect:
                        continue
                    if tier == 'quick' and (len(v2) != 1 or len(v1) == 3):
                        # quick: the second constraint grounds one shared variable through each of
                        # its propagation arms while the first one is suspended on it
                        continue
                    progs.append({'kind': 'S3', 'pre': None, 'cons': [(r1, p1), (r2, p2)], 'mid': None})
    return progs


def prog_name(sp):
    parts = []
    if sp['pre']:
        parts.append('%s==%s' % sp['pre'])
    for rel, pat in sp['cons']:
        parts.append('%s(%s)' % (rel, ','.join(pat)))
    if sp['mid']:
        parts.append('%s==%s' % sp['mid'])
    return ' ; '.join(parts)


def scenario(m, sp, W):
    ctx = m.ctx
    state = H.new_state(m)
    pool = {}
    info = {'spec': sp, 'nums': [], 'binds': [], 'vals': {}, 'failed_at': None, 'steps': []}
    m.last_info = info

    def var(name):
        if name not in pool:
            pool[name] = H.t_var(m, name)
        return pool[name]

    def unify(a, b, label):
        nonlocal state
        if state is None:
            return
        r = val(m, m.call('State::<U, E>::unify', [state, H.ref(a), H.ref(b)]))
        if r.var == 0:
            state = r.fields[0]
        else:
            state = None
            info['failed_at'] = label

    def post(rel, pat, ci):
        nonlocal state
        ops, ns = [], []
        for o in pat:
            if o == 'N':
                n = ctx.fresh_bv('n%d' % ci)
                ctx.assume(z3.And(n >= -W, n <= W))
                if W <= 16:
                    # redundant enumeration of the window: lets the SAT solver case-split on the factor
                    ctx.assume(z3.Or(*[n == k for k in range(-W, W + 1)]))
                ns.append(n)
                ops.append(H.t_num(m, n))
            else:
                ns.append(None)
                ops.append(var(o))
        info['nums'].append(ns)
        if state is None:
            return
        goal = m.call('%s::<U, E, G>' % rel, list(ops))
        goal = m.call('<InferredGoal<U, E, G> as GoalCast<U, E, G>>::cast_into', [goal])
        solver = Adt('Solver', 0, ())
        stream = val(m, m.call('Goal::<U, E>::solve', [H.ref(goal), H.ref(solver), state]))
        sname = m.p.enums['Stream'][stream.var]
        if sname == 'Empty':
            state = None
            info['failed_at'] = 'post %d' % ci
        elif sname == 'Unit':
            st = val(m, stream.fields[0])
            state = val(m, st.fields[0]) if isinstance(st, Adt) and st.ty == 'Box' else st
        else:
            raise NotEncodable('unexpected stream shape ' + sname)

    if sp['pre']:
        unify(var(sp['pre'][0]), var(sp['pre'][1]), 'pre-alias')
    for ci, (rel, pat) in enumerate(sp['cons']):
        post(rel, pat, ci)
    if sp['kind'] == 'S1' and state is not None:
        ent = H.smap_entries(m, state)
        info['post_walk'] = {n: H.walk_view(ent, H.view(m, pool[n])) for n in pool}
    if sp['mid']:
        unify(var(sp['mid'][0]), var(sp['mid'][1]), 'mid-alias')
    names = sorted(pool)
    perms = list(itertools.permutations(names))
    pi = ctx.choose([True] * len(perms), 'binding order') if len(perms) > 1 else 0
    B = W * W + W
    info['B'] = B
    # bind a prefix of the chosen order (fork over its length): answers with unbound variables are
    # checked too -- an operand that is determined by the others must not be left unbound
    k = ctx.choose([True] * (len(names) + 1), 'how many variables are bound') if names else 0
    for nm in perms[pi][:len(names) - k]:
        mv = ctx.fresh_bv('m_' + nm)
        ctx.assume(z3.And(mv >= -B, mv <= B))
        info['vals'][nm] = mv
        info['binds'].append(nm)
        unify(pool[nm], H.t_num(m, mv), 'bind ' + nm)
    info['final_cstore'] = H.cstore_len(m, state) if state is not None else None
    if state is not None:
        ent = H.smap_entries(m, state)
        info['final_walk'] = {n: H.walk_view(ent, H.view(m, pool[n])) for n in pool}
    return info


def spec_formula(info, exist=None):
    """Conjunction of the arithmetic equations and alias equalities on the final values;
    variables that were never bound take the values in `exist` (fresh solver variables)."""
    sp = info['spec']
    conj = []
    vals_of = dict(info['vals'])
    if exist:
        vals_of.update(exist)
    info = dict(info, vals=vals_of)
    for (rel, pat), ns in zip(sp['cons'], info['nums']):
        vals = [H.bv(n) if o == 'N' else H.bv(info['vals'][o]) for o, n in zip(pat, ns)]
        conj.append(vals[0] + vals[1] == vals[2] if rel == 'plusz' else vals[0] * vals[1] == vals[2])
    for al in (sp['pre'], sp['mid']):
        if al:
            conj.append(H.bv(info['vals'][al[0]]) == H.bv(info['vals'][al[1]]))
    return z3.And(*conj)


def program_text(info, model):
    sp = info['spec']

    def num(x):
        return H.model_int(model, x)
    goals = []
    if sp['pre']:
        goals.append('%s == %s' % sp['pre'])
    for (rel, pat), ns in zip(sp['cons'], info['nums']):
        goals.append('%s(%s)' % (rel, ', '.join(str(num(n)) if o == 'N' else o for o, n in zip(pat, ns))))
    if sp['mid']:
        goals.append('%s == %s' % sp['mid'])
    for nm in info['binds']:
        goals.append('%s == %d' % (nm, num(info['vals'][nm])))
    used = sorted({o for _, pat in sp['cons'] for o in pat if o != 'N'} | set(sp['pre'] or ()) | set(sp['mid'] or ()))
    return goals, used


def case_source(prop, goals, used, expect_answers, what, path):
    # the query variable is tied to the program variables FIRST: a unification after the constraints
    # would itself re-run the constraint store and hide a missing wake-up
    body = ',\n            '.join((['q == [%s]' % ', '.join(used)] if used else ['q == 0']) + goals)
    fresh = ('|%s| {\n            %s\n        }' % (', '.join(used), body)) if used else body
    return """// Counterexample found by mirsym/z3 for property %s: %s
// Replay: /verif/check %s --replay %s   (runs this program natively against /repo)
use proto_vulcan::prelude::*;
#[allow(unused_imports)]
use proto_vulcan::relation::clpz::plusz::plusz;
#[allow(unused_imports)]
use proto_vulcan::relation::clpz::timesz::timesz;

#[test]
fn replay() {
    let query = proto_vulcan_query!(|q| {
        %s
    });
    let expected: isize = %d; // -1: any number of answers, but no panic; -2: no unbound variable in any answer
    let mut n: isize = 0;
    for r in query.run() {
        n += 1;
        if expected == -2 {
            let shown = format!("{}", r.q);
            assert!(!shown.contains('_'), "answer {} leaves a determined operand unbound", shown);
        }
    }
    assert!(expected < 0 || n == expected, "number of answers {} (expected {})", n, expected);
}
""" % (prop, what.replace('\n', ' '), prop, path, fresh, expect_answers)


def check_program(task):
    """Worker: explore one program specification; returns picklable findings + statistics."""
    sp, W, mirp = task
    prog = H.program(mirp, REPO)
    mk, mods = H.machine_factory(prog)
    out = {'name': prog_name(sp), 'issues': [], 'covers': set(), 'queries': 0, 'solver_s': 0.0, 'unknown': 0,
           'called': set(), 'sample': None}

    def ask(ctx, extra):
        out['queries'] += 1
        t = time.time()
        r, model = ctx.query(extra, fresh=True)
        out['solver_s'] += time.time() - t
        if r == z3.unknown:
            out['unknown'] += 1
        return r, model

    def issue(key, what, info, model, panic=False):
        if any(k == key for k, *_ in out['issues']):
            return
        goals, used, expect = None, None, None
        if info is not None and model is not None:
            goals, used = program_text(info, model)
            complete = all(o == 'N' or o in info['vals'] for _, pat in info['spec']['cons'] for o in pat)
            if panic:
                expect = -1
            elif key.startswith('determined-operand-unbound'):
                expect = -2        # the answer must not contain an unbound query variable
            elif not complete:
                expect = -1
            else:
                expect = 1 if z3.is_true(model.eval(spec_formula(info), model_completion=True)) else 0
        out['issues'].append((key, what, goals, used, expect))

    def on_path(r):
        ctx = r.ctx
        out['called'].update(r.machine.called)
        if r.status in ('notenc', 'abort'):
            return
        if r.status == 'panic':
            rr, model = ask(ctx, True)
            if rr == z3.sat:
                issue('panic: %s' % r.detail[:60], 'panics: %s' % r.detail, getattr(r.machine, 'last_info', None), model, panic=True)
            return
        info = r.value
        allv = sorted({o for _, pat in info['spec']['cons'] for o in pat if o != 'N'} | set(info['spec']['pre'] or ()) | set(info['spec']['mid'] or ()))
        unbound = [v for v in allv if v not in info['vals']]
        if info['failed_at'] is None:
            out['covers'].add('ok')
            fw = info['final_walk']
            # value of every variable in the answer: a number, or unknown (identified by variable id)
            known = {v: fw[v][1] for v in allv if fw[v][0] == 'num'}
            for ci, ((rel, pat), ns) in enumerate(zip(info['spec']['cons'], info['nums'])):
                vals = [(n if o == 'N' else known.get(o)) for o, n in zip(pat, ns)]
                unk = [i for i, x in enumerate(vals) if x is None]
                if not unk:
                    u, v, w = [H.bv(x) for x in vals]
                    eq = (u + v == w) if rel == 'plusz' else (u * v == w)
                    rr, model = ask(ctx, z3.Not(eq))
                    if rr == z3.sat:
                        issue('unsound c%d' % ci, 'succeeds although the equation of constraint %d does not hold' % ci, info, model)
                elif len(unk) == 1:
                    out['covers'].add('one-unknown')
                    i = unk[0]
                    others = [H.bv(x) for x in vals if x is not None]
                    if rel == 'plusz' or i == 2:
                        rr, model = ask(ctx, True)
                        issue('determined-operand-unbound c%d pos=%d' % (ci, i), 'answer leaves operand %d of constraint %d unbound although the other two are ground' % (i, ci), info, model)
                    else:
                        fct, prod = others
                        rr, model = ask(ctx, z3.Not(z3.And(fct == 0, prod == 0)))
                        if rr == z3.sat:
                            issue('determined-operand-unbound c%d pos=%d' % (ci, i), 'answer leaves factor %d of constraint %d unbound although it is determined (or impossible)' % (i, ci), info, model)
            for al in (info['spec']['pre'], info['spec']['mid']):
                if al and al[0] in known and al[1] in known:
                    rr, model = ask(ctx, H.bv(known[al[0]]) != H.bv(known[al[1]]))
                    if rr == z3.sat:
                        issue('unsound alias', 'succeeds although %s == %s does not hold' % al, info, model)
        else:
            out['covers'].add('err')
            ex = {}
            B = info['B']
            side = []
            for v in unbound:
                e = z3.BitVec('exists_' + v, 64)
                ex[v] = e
                side.append(z3.And(e >= -B, e <= B))
            rr, model = ask(ctx, z3.And(spec_formula(info, ex), *side))
            if rr == z3.sat:
                for v in unbound:
                    info['vals'][v] = ex[v]
                    info['binds'].append(v)
                issue('incomplete at=%s' % info['failed_at'].split()[0], 'fails (%s) although the equations have a solution' % info['failed_at'], info, model)
        sp_ = info['spec']
        if sp_['kind'] == 'S1' and 'post_walk' in info:
            rel, pat = sp_['cons'][0]
            ns = info['nums'][0]
            if list(pat).count('N') == 2:
                vi = [i for i, o in enumerate(pat) if o != 'N'][0]
                w = info['post_walk'][pat[vi]]
                nums = [H.bv(n) for n in ns if n is not None]
                out['covers'].add('two-ground')
                if rel == 'plusz':
                    a, b = nums
                    sol = {0: b - a, 1: b - a, 2: a + b}[vi]
                    if w[0] != 'num':
                        issue('two-ground-not-bound pos=%d' % vi, 'with two ground operands the third stays unbound', info, ask(ctx, True)[1])
                    else:
                        rr, model = ask(ctx, H.bv(w[1]) != sol)
                        if rr == z3.sat:
                            issue('two-ground-wrong-value pos=%d' % vi, 'binds the third operand to a wrong value', info, model)
                elif vi == 2:
                    a, b = nums
                    if w[0] != 'num':
                        issue('two-ground-not-bound pos=2', 'does not bind the product', info, ask(ctx, True)[1])
                    else:
                        rr, model = ask(ctx, H.bv(w[1]) != a * b)
                        if rr == z3.sat:
                            issue('two-ground-wrong-value pos=2', 'binds the product to a wrong value', info, model)
                else:
                    fct, prod = nums
                    if w[0] == 'num':
                        rr, model = ask(ctx, z3.Or(fct * H.bv(w[1]) != prod, fct == 0))
                        if rr == z3.sat:
                            issue('two-ground-wrong-quotient pos=%d' % vi, 'binds a factor to a value that does not solve the equation', info, model)
                    else:
                        rr, model = ask(ctx, z3.Not(z3.And(fct == 0, prod == 0)))
                        if rr == z3.sat:
                            issue('two-ground-not-bound pos=%d' % vi, 'leaves a uniquely determined factor unbound', info, model)
        if out['sample'] is None:
            out['sample'] = {'program': out['name'], 'binding_order': info['binds'], 'outcome': info['failed_at'] or 'Ok',
                             'path_condition': [str(c)[:100] for c in ctx.pc[:5]]}
    stats = interp.explore(mk, lambda m: scenario(m, sp, W), on_path=on_path, time_budget=900)
    out['stats'] = {k: stats[k] for k in ('paths', 'ok', 'panic', 'notenc', 'abort', 'solver_calls', 'steps', 'truncated', 'wall_s')}
    out['notenc_reasons'] = stats['notenc_reasons']
    return out


def replay(path):
    out = kanirun.replay_case(path)
    for prof, (okk, tail) in out.items():
        say('replay[%s]: %s %s' % (prof, 'REPRODUCED' if okk else 'not reproduced', tail))
    return 1 if any(okk for okk, _ in out.values()) else 0


def run(tier):
    import parallel
    rep = Report('C19', tier, 'other', 'mirsym')
    rep.functions += FUNCS
    rep.assumptions += ASSUME
    WP, WT = (12, 4) if tier == 'quick' else (100, 12)     # windows: plusz-only programs / programs with timesz
    mirp = mirgen.dump_mir()
    H.program(mirp, REPO)          # parse once, shared with the forked workers
    progs = programs(tier)
    t0 = time.time()
    def win(sp):
        return WT if any(r == 'timesz' for r, _ in sp['cons']) else WP
    results = parallel.pmap(check_program, [(sp, win(sp), mirp) for sp in progs])
    called = set()
    groups = {}
    tot = {'paths': 0, 'queries': 0, 'solver_s': 0.0, 'steps': 0}
    for sp, (st, res) in zip(progs, results):
        g = groups.setdefault('C19.%s.%s' % (sp['kind'], '+'.join(r for r, _ in sp['cons'])),
                              {'programs': 0, 'paths': 0, 'issues': [], 'inconclusive': [], 'covers': set(), 'queries': 0, 'solver_s': 0.0})
        g['programs'] += 1
        if st != 'ok':
            g['inconclusive'].append('%s: worker error %s' % (prog_name(sp), res[:300]))
            continue
        called |= res['called']
        g['paths'] += res['stats']['paths']
        g['queries'] += res['queries'] + res['stats']['solver_calls']
        g['solver_s'] += res['solver_s']
        g['covers'] |= res['covers']
        tot['paths'] += res['stats']['paths']
        tot['steps'] += res['stats']['steps']
        if res['stats']['notenc'] or res['stats']['truncated'] or res['unknown']:
            g['inconclusive'].append('%s: notenc=%s unknown=%d truncated=%s' % (res['name'], list(res['notenc_reasons'].items())[:2], res['unknown'], res['stats']['truncated']))
        for (key, what, goals, used, expect) in res['issues']:
            g['issues'].append((res['name'], key, what, goals, used, expect))
        if res['sample'] and len(rep.samples) < 8:
            rep.samples.append(res['sample'])
    for gname in sorted(groups):
        g = groups[gname]
        bound = dict(window=(WT if 'timesz' in gname else WP), programs=g['programs'], paths=g['paths'], z3_queries=g['queries'], solver_s=round(g['solver_s'], 2))
        if g['inconclusive']:
            rep.obligation(gname, 'inconclusive', detail='; '.join(g['inconclusive'][:3]), **bound)
            continue
        if not {'ok', 'err'} <= g['covers']:
            rep.obligation(gname, 'broken', detail='vacuity: covers met %s' % sorted(g['covers']), **bound)
            rep.broke('group %s never reached %s' % (gname, {'ok', 'err'} - g['covers']))
            continue
        status = 'holds'
        seen_roles = set()
        for (pname, key, what, goals, used, expect) in sorted(g['issues'], key=lambda x: (x[1], x[0])):
            # one replay per (group, issue role); every distinct program is still listed in the evidence
            fullkey = '%s | %s | %s' % (gname.split('.', 1)[1], pname, key)
            role = (key.split(' pos=')[0], tuple(r for r in pname.split(' ; ')))
            case = os.path.join(VERIF, 'replay', 'cases', 'C19-%s.rs' % re.sub(r'[^A-Za-z0-9]+', '_', fullkey)[:150])
            what_full = '%s %s' % (pname, what) + (' e.g. ' + ', '.join(goals) if goals else '')
            if goals is None:
                status = 'broken'
                rep.broke('issue without model: ' + fullkey)
                continue
            open_case = case_source('C19', goals, used, expect, what_full, case)
            os.makedirs(os.path.dirname(case), exist_ok=True)
            open(case, 'w').write(open_case)
            out = kanirun.replay_case(case)
            rep.extra['replayed'] = rep.extra.get('replayed', 0) + 1
            reproduced = any(okk for okk, _ in out.values())
            tail = '; '.join('%s: %s' % (p, t[:160].replace('\n', ' ')) for p, (okk, t) in out.items())
            if reproduced:
                new = rep.violation(fullkey, what_full + ' [native replay: %s]' % tail, case)
                status = 'violated' if new else ('known' if status == 'holds' else status)
            else:
                status = 'broken'
                rep.broke('ENCODING-MISMATCH %s: %s | %s' % (fullkey, what_full, tail))
        rep.obligation(gname, status, issues=[i[:3] for i in g['issues']][:20], **bound)
    rep.functions += sorted(called)
    rep.extra['states'] = tot['paths']
    rep.extra['transitions'] = tot['steps']
    rep.extra['programs'] = len(progs)
    try:
        os.remove(mirp)
    except OSError:
        pass
    return rep.finish(
        'Symbolic execution of the MIR of the real plusz/timesz relations, their Solve and Constraint::run '
        'implementations and State::unify over program skeletons (S1: one constraint, every operand kind/aliasing pattern; '
        'S2: plus a variable-variable unification before or after posting; S3: two constraints sharing a variable) in every '
        'binding order, with ALL integer values inside the window decided by z3: each feasible path condition is checked '
        'against the arithmetic specification (sound, complete, no panic, two-ground binding). '
        'Not a proof: bounded by the window, three variables, two constraints.',
        trusted_base=['mirsym MIR executor + std models', 'z3 5.1', 'rustc nightly MIR dump'],
        checker_cmd='cargo +nightly rustc --lib -- -Zunpretty=mir ; python3-vt mirsym (z3)')
