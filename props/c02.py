"""C02 — Disequality constraints (CLP(Tree)) are sound, complete and order-free (Engine M, whole programs)."""
import progprop
import tmpl
from progprop import replay


def run(tier):
    import os
    seed = int(os.environ.get('VERIF_SEED', '0') or 0)
    return progprop.run('C02', tier, tmpl.tree_constraints() + tmpl.random_tree_programs(seed + 101, 0 if tier == 'quick' else 100), 'c02',
                        'eq / diseq / conde / fresh programs in several goal orders, executed symbolically from MIR; per feasible path every answer '
                        '(term + attached disequalities) must be logically equivalent to a reference answer over ALL ground instances (z3 datatype), '
                        'and the answer multisets must coincide; every permutation of the constraint goals is its own template with the same reference.')
