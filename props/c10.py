"""C10 — Search branches are isolated from each other (Engine M, whole programs)."""
import progprop
import tmpl
from progprop import replay


def run(tier):
    import os
    seed = int(os.environ.get('VERIF_SEED', '0') or 0)
    return progprop.run('C10', tier, tmpl.branches() + tmpl.random_tree_programs(seed + 303, 0 if tier == 'quick' else 100), 'c10',
                        'conde { A, B } under a shared constraint prefix, executed symbolically from MIR: the answers must be the multiset union of the '
                        'reference answers of A alone and of B alone from the same state (the reference evaluates each branch on its own copy of the state).')
