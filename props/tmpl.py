"""Program templates (AST builders) shared by the whole-program checks.  Parameters P(i) are
symbolic integers; every template is one compiled Rust function using the real macros."""
import itertools
import random

P = lambda i: ('par', i)
N = lambda k: ('num', k)
V = lambda n: ('var', n)
NIL = ('nil',)
ANY = ('any',)


def L(*xs):
    return ('list', list(xs), None)


def LI(xs, tail):
    return ('list', list(xs), tail)


def EQ(a, b):
    return ('eq', a, b)


def NE(a, b):
    return ('diseq', a, b)


def CONDE(*clauses):
    return ('conde', [list(c) if isinstance(c, (list, tuple)) and c and isinstance(c[0], tuple) and not isinstance(c[0][0], str) else [c] for c in clauses])


def clauses(*cs):
    out = []
    for c in cs:
        if isinstance(c, list):
            out.append(c)
        else:
            out.append([c])
    return out


def OP(name, *cs):
    return (name, clauses(*cs))


def FRESH(names, *gs):
    return ('fresh', list(names), list(gs))


def REL(name, *args):
    return ('rel', name, list(args))


TRUE = ('succeed',)
FALSE = ('fail',)
q, x, y, z, w = V('q'), V('x'), V('y'), V('z'), V('w')


def nparams(prog):
    import prog as PG
    ps = PG.params_of(prog)
    return (max(ps) + 1) if ps else 0


def T(name, prog, mode, limit=24, **extra):
    return (name, prog, nparams(prog), mode, limit, extra)


# ---------------------------------------------------------------------------------------------
# Families
# ---------------------------------------------------------------------------------------------

def search_bfs():
    """Interleaving search: answers as a multiset."""
    t = []
    t.append(T('bfs_conde_diseq', [OP('conde', EQ(q, P(0)), EQ(q, P(1))), NE(q, P(2))], 'multiset'))
    t.append(T('bfs_conde3_false_last', [OP('conde', EQ(q, P(0)), EQ(q, P(1)), FALSE)], 'multiset'))
    t.append(T('bfs_conde3_false_mid', [OP('conde', EQ(q, P(0)), FALSE, EQ(q, P(1)))], 'multiset'))
    t.append(T('bfs_conde3_false_first', [OP('conde', FALSE, EQ(q, P(0)), EQ(q, P(1)))], 'multiset'))
    t.append(T('bfs_conde4_conjfalse', [OP('conde', EQ(q, P(0)), EQ(q, P(1)), [EQ(q, P(2)), FALSE], EQ(q, P(3)))], 'multiset'))
    t.append(T('bfs_conde_true_first', [OP('conde', TRUE, EQ(q, P(0)), EQ(q, P(1)))], 'multiset'))
    t.append(T('bfs_nested_conde_true', [OP('conde', OP('conde', TRUE, EQ(q, P(0)), EQ(q, P(1))), EQ(q, P(2))), NE(q, P(3))], 'multiset'))
    t.append(T('bfs_nested_conde', [OP('conde', OP('conde', EQ(q, P(0)), EQ(q, P(1))), OP('conde', EQ(q, P(2)), EQ(q, P(0))))], 'multiset'))
    t.append(T('bfs_two_condes', [FRESH(['x', 'y'], EQ(q, L(x, y)),
                                        OP('conde', EQ(x, P(0)), EQ(x, P(1))),
                                        OP('conde', EQ(y, P(1)), [EQ(y, P(2)), NE(x, y)]))], 'multiset'))
    t.append(T('bfs_conj_in_clause', [FRESH(['x', 'y'], EQ(q, L(x, y)),
                                            OP('conde', [EQ(x, P(0)), EQ(y, P(1))], [EQ(x, P(1)), EQ(y, x)], [EQ(x, y), EQ(y, P(2))]))], 'multiset'))
    t.append(T('bfs_member', [REL('member', q, L(P(0), P(1), P(2))), NE(q, P(3))], 'multiset'))
    t.append(T('bfs_member2', [FRESH(['x', 'y'], REL('member', x, L(P(0), P(1))), REL('member', y, L(P(1), P(2))), EQ(q, L(x, y)), NE(x, y))], 'multiset'))
    t.append(T('bfs_append_split', [FRESH(['x', 'y'], REL('append', x, y, L(P(0), P(1))), EQ(q, L(x, y)))], 'multiset'))
    t.append(T('bfs_append_fwd', [REL('append', L(P(0)), L(P(1), P(2)), q)], 'multiset'))
    t.append(T('bfs_cond_keyword', [OP('cond', EQ(q, P(0)), [EQ(q, P(1)), NE(q, P(0))])], 'multiset'))
    t.append(T('bfs_fresh_shadow', [FRESH(['x'], EQ(x, P(0)), FRESH(['x'], EQ(x, P(1)), EQ(q, x)))], 'multiset'))
    t.append(T('bfs_disj_node', [FRESH(['x'], EQ(q, L(x, P(0))), OP('bfsor', REL('member', x, L(P(1), P(2))), [EQ(x, P(0)), NE(x, P(1))], FALSE, EQ(x, P(3))))], 'multiset'))
    t.append(T('bfs_conde_true_last', [OP('conde', EQ(q, P(0)), EQ(q, P(1)), TRUE)], 'multiset'))
    t.append(T('bfs_conde_true_mid', [OP('conde', EQ(q, P(0)), TRUE, EQ(q, P(1)))], 'multiset'))
    t.append(T('bfs_conde_empty_conj_last', [FRESH(['x'], EQ(q, L(x, P(0))), OP('conde', EQ(x, P(1)), []))], 'multiset'))
    t.append(T('bfs_disj_node_succeed_operand', [OP('bfsor', TRUE, EQ(q, P(0)), EQ(q, P(1)))], 'multiset'))
    t.append(T('bfs_disj_node_succeed_last', [OP('bfsor', EQ(q, P(0)), EQ(q, P(1)), TRUE)], 'multiset'))
    t.append(T('bfs_conde_in_conj_last', [FRESH(['x'], EQ(q, L(x, P(0))), OP('conde', EQ(x, P(1)), EQ(x, P(2)), EQ(x, P(0))), NE(x, P(0)))], 'multiset'))
    return t


def search_dfs():
    """Depth-first search: exact answer order."""
    t = []
    mem3 = lambda v, a: REL('member', v, L(*[P(i) for i in a]))
    t.append(T('dfs_cond_members', [('dfs', [OP('cond', mem3(q, (0, 1)), mem3(q, (2, 3)))])], 'sequence'))
    t.append(T('dfs_two_members', [FRESH(['x', 'y'], ('dfs', [mem3(x, (0, 1, 2)), mem3(y, (3, 4, 5)), EQ(q, L(x, y))]))], 'sequence'))
    t.append(T('dfs_bracketed_conj', [FRESH(['x', 'y'], ('dfs', [('conj', [mem3(x, (0, 1)), mem3(y, (2, 3))]), EQ(q, L(x, y))]))], 'sequence'))
    t.append(T('dfs_bracketed_only', [FRESH(['x', 'y'], EQ(q, L(x, y)), ('dfs', [('conj', [mem3(x, (0, 1)), mem3(y, (2, 3))])]))], 'sequence'))
    t.append(T('dfs_member_then_cond', [FRESH(['x', 'y'], ('dfs', [mem3(x, (0, 1)), OP('cond', EQ(y, P(2)), EQ(y, P(3)), [EQ(y, x), NE(x, P(0))]), EQ(q, L(x, y))]))], 'sequence'))
    t.append(T('dfs_nested_cond', [('dfs', [OP('cond', OP('cond', EQ(q, P(0)), EQ(q, P(1))), OP('cond', EQ(q, P(2)), FALSE, EQ(q, P(3))))])], 'sequence'))
    t.append(T('dfs_cond_then_member', [FRESH(['x', 'y'], ('dfs', [OP('cond', EQ(x, P(0)), EQ(x, P(1))), mem3(y, (2, 3)), NE(x, y), EQ(q, L(x, y))]))], 'sequence'))
    t.append(T('dfs_append_split', [FRESH(['x', 'y'], ('dfs', [REL('append', x, y, L(P(0), P(1), P(2))), EQ(q, L(x, y))]))], 'sequence'))
    t.append(T('dfs_disj_node', [('dfs', [OP('dfsor', mem3(q, (0, 1, 2)), mem3(q, (3, 4)), mem3(q, (5, 0)))])], 'sequence'))
    t.append(T('dfs_disj_node_in_conj', [FRESH(['x', 'y'], ('dfs', [mem3(x, (0, 1)), OP('dfsor', [mem3(y, (2, 3))], [mem3(y, (4, 5)), NE(x, y)]), EQ(q, L(x, y))]))], 'sequence'))
    t.append(T('dfs_disj_node_from_bfs', [OP('dfsor', mem3(q, (0, 1, 2)), mem3(q, (3, 4)))], 'sequence'))
    t.append(T('dfs_three_levels', [FRESH(['x', 'y', 'z'], ('dfs', [mem3(x, (0, 1)), mem3(y, (1, 2)), mem3(z, (0, 2)), NE(x, z), EQ(q, L(x, y, z))]))], 'sequence'))
    return t


def committed():
    """conda / condu / onceo."""
    t = []
    mem = lambda v, a: REL('member', v, L(*[P(i) for i in a]))
    # heads with 0 / 1 answers decided by parameters
    t.append(T('conda_first_or_second', [FRESH(['x', 'y'], EQ(q, L(x, y)), EQ(x, P(0)),
                                               OP('conda', [EQ(x, P(1)), EQ(y, P(2))], [EQ(x, P(3)), EQ(y, P(4))], [EQ(y, P(0))]))], 'multiset'))
    t.append(T('conda_cut_fail', [FRESH(['x'], EQ(x, P(0)), OP('conda', [EQ(x, P(1)), FALSE], [EQ(q, P(2))]), EQ(q, x))], 'multiset'))
    t.append(T('conda_cut_fail_static', [OP('conda', [EQ(q, P(0)), FALSE], [EQ(q, P(1))], [TRUE])], 'multiset'))
    t.append(T('conda_head_many', [FRESH(['x', 'y', 'z'], EQ(q, L(x, y)), ('dfs', [mem(z, (0, 1))]),
                                         OP('conda', [EQ(x, z), EQ(y, P(2))], [EQ(x, z), EQ(y, P(3))]))], 'multiset'))
    t.append(T('conda_head_multi_dfs', [FRESH(['x', 'y'], EQ(q, L(x, y)),
                                              OP('conda', [('dfs', [mem(x, (0, 1, 2))]), NE(x, P(3)), EQ(y, P(4))], [EQ(x, P(3)), EQ(y, P(3))]))], 'multiset'))
    t.append(T('conda_dynamic_fail_rest', [FRESH(['x'], EQ(q, x), OP('conda', [EQ(x, P(0)), EQ(x, P(1))], [EQ(x, P(2))]))], 'multiset'))
    t.append(T('condu_head_multi_dfs', [FRESH(['x', 'y'], EQ(q, L(x, y)),
                                              OP('condu', [('dfs', [mem(x, (0, 1, 2))]), EQ(y, P(3))], [EQ(x, P(3)), EQ(y, P(3))]))], 'multiset'))
    t.append(T('condu_then_filter', [FRESH(['x'], EQ(q, x), OP('condu', [('dfs', [mem(x, (0, 1))])], [EQ(x, P(2))]), NE(x, P(0)))], 'multiset'))
    t.append(T('condu_second_clause', [FRESH(['x'], EQ(q, x), EQ(x, P(0)), OP('condu', [EQ(x, P(1))], [EQ(x, P(2))], [TRUE]))], 'multiset'))
    t.append(T('onceo_single', [OP('onceo', ('dfs', [mem(q, (0, 1, 2))]))], 'multiset'))
    t.append(T('onceo_two_goals', [FRESH(['x'], EQ(q, x), ('onceo', [('dfs', [mem(x, (0, 1, 2))]), NE(x, P(0))]))], 'multiset'))
    t.append(T('onceo_conj_filter', [FRESH(['x', 'y'], EQ(q, L(x, y)), ('onceo', [('conj', [('dfs', [mem(x, (0, 1))]), ('dfs', [mem(y, (1, 2))]), NE(x, y)])]))], 'multiset'))
    t.append(T('onceo_fail', [('onceo', [EQ(q, P(0)), EQ(q, P(1))])], 'multiset'))
    # heads that fail only after lazy steps (member over a list that does not contain the element): the next clause runs exactly once
    far = N(7)
    t.append(T('conda_lazy_failing_head', [OP('conda', [REL('member', far, L(P(0), P(1))), EQ(q, P(0))], [EQ(q, P(2))])], 'multiset'))
    t.append(T('condu_lazy_failing_head', [OP('condu', [REL('member', far, L(P(0), P(1), P(2))), EQ(q, P(0))], [REL('member', q, L(P(1), P(2)))])], 'multiset'))
    t.append(T('conda_two_lazy_failing_heads', [OP('conda', [REL('member', far, L(P(0))), EQ(q, P(0))], [REL('member', far, L(P(1), P(2))), EQ(q, P(1))], [EQ(q, P(2))], [EQ(q, P(0))])], 'multiset'))
    t.append(T('conda_lazy_succeeding_head', [FRESH(['x'], EQ(q, x), OP('conda', [REL('member', x, L(P(0), P(1))), NE(x, P(2))], [EQ(x, P(2))]))], 'multiset'))
    t.append(T('onceo_lazy_head', [FRESH(['x'], EQ(q, x), ('onceo', [REL('append', L(P(0)), L(P(1)), x)]))], 'multiset'))
    t.append(T('condu_head_immediate_cons', [OP('condu', [OP('conde', TRUE, TRUE), EQ(q, P(0))], [EQ(q, P(1))])], 'multiset'))
    t.append(T('conda_head_immediate_cons', [FRESH(['x'], EQ(q, x), OP('conda', [OP('conde', TRUE, EQ(x, P(0))), NE(x, P(1))], [EQ(x, P(2))]))], 'multiset'))
    t.append(T('onceo_second_goal_many', [FRESH(['x', 'y'], EQ(q, L(x, y)), ('onceo', [EQ(x, P(0)), ('dfs', [mem(y, (1, 2))])]))], 'multiset'))
    return t


def branches():
    """conde {A, B} versus A alone and B alone (isolation): same reference, three templates each."""
    t = []
    pre = [NE(q, P(0))]
    A1 = OP('conde', TRUE, EQ(q, P(1)), EQ(q, P(2)))
    B1 = EQ(q, P(3))
    A2 = ('conj', [EQ(q, P(1)), NE(q, P(2))])
    B2 = ('conj', [NE(q, P(1)), OP('conde', EQ(q, P(2)), EQ(q, P(3)))])
    A3 = FALSE
    B3 = EQ(q, P(1))
    A4 = FRESH(['x'], EQ(q, L(x, P(1))), NE(x, P(2)))
    B4 = FRESH(['x'], EQ(q, L(P(1), x)), EQ(x, P(3)))
    for i, (A, B) in enumerate([(A1, B1), (A2, B2), (A3, B3), (B3, A3), (A4, B4), (B1, A1)]):
        t.append(T('iso%d_both' % i, pre + [OP('conde', A, B)], 'multiset'))
        t.append(T('iso%d_both_mid' % i, pre + [OP('conde', A, B, FALSE)], 'multiset'))
    # state that is shared by reference between sibling branches: domain store, constraint store, substitution, terms
    t.append(T('iso_fd_domain_removed_in_sibling', [FRESH(['x'], INFD(x, [1, 2]), OP('conde', EQ(x, P(0)), EQ(x, P(1)), EQ(x, P(2))), EQ(q, x))], 'multiset', 40))
    t.append(T('iso_fd_domain_two_vars', [FRESH(['x', 'y'], EQ(q, L(x, y)), INFDR(L(x, y), 0, 1), OP('conde', [EQ(x, P(0))], [EQ(x, P(1)), EQ(y, P(2))], [EQ(y, P(0))]))], 'multiset', 40))
    t.append(T('iso_fd_singleton_binding_in_sibling', [FRESH(['x', 'y'], EQ(q, L(x, y)), INFDR(x, 1, 3), OP('conde', [REL('ltefd', x, P(0)), EQ(y, N(1))], [EQ(y, N(2))]))], 'multiset', 40))
    t.append(T('iso_fd_constraint_in_sibling', [FRESH(['x', 'z'], EQ(q, L(x, z)), INFDR(L(x, z), 0, 2), OP('conde', [REL('ltfd', x, z)], [REL('diseqfd', x, P(0))], [EQ(x, z)]))], 'multiset', 60))
    t.append(T('iso_diseq_store_in_sibling', [FRESH(['x', 'z'], EQ(q, L(x, z)), NE(x, P(0)), OP('conde', [NE(L(x, z), L(P(1), P(2))), EQ(x, P(1))], [EQ(z, P(2)), EQ(x, P(1))], [NE(x, P(1)), EQ(x, P(0))]))], 'multiset', 40))
    t.append(T('iso_term_mutated_in_sibling', [FRESH(['x'], EQ(x, L(P(0), P(1))), OP('conde', REL('pusho', x, P(2), q), EQ(q, x), [REL('pusho', x, P(3), q)]))], 'multiset', 40))
    abc_ = L(V('a'), V('b'), V('c'))
    t.append(T('iso_hidden_labeling_other_branch', [OP('conde', EQ(q, P(0)), FRESH(['a', 'b', 'c'], EQ(q, P(1)), INFD(abc_, [1, 2]), REL('distinctfd', abc_)))], 'multiset', 40))
    t.append(T('iso_hidden_labeling_shared_prefix', [FRESH(['a'], INFD(V('a'), [1, 2, 3]), OP('conde', EQ(q, P(0)), FRESH(['b', 'c', 'd'], EQ(q, P(1)), INFD(L(V('b'), V('c'), V('d')), [1, 2]), REL('distinctfd', L(V('b'), V('c'), V('d'))))))], 'multiset', 40))
    t.append(T('iso_distinct_constraint_shared', [FRESH(['x', 'y', 'z'], EQ(q, L(x, y, z)), INFDR(L(x, y, z), 0, 3), REL('distinctfd', L(x, y, z)), OP('conde', EQ(L(x, y, z), L(P(0), P(0), P(1))), EQ(L(x, y, z), L(P(0), P(1), P(2))), [EQ(L(x, y), L(P(1), P(1)))], EQ(L(x, y, z), L(P(2), P(1), P(0)))))], 'multiset', 60))
    t.append(T('iso_plusz_in_branch', [OP('conde', REL('plusz', P(0), P(1), q), EQ(q, P(2)), NE(q, P(0)))], 'multiset', 40))
    t.append(T('iso_plusz_in_branch_prefix', [FRESH(['x'], REL('plusz', q, N(1), x), OP('conde', REL('plusz', P(0), P(1), q), EQ(q, P(2))))], 'multiset', 40))
    t.append(T('iso_hidden_domain_vars_per_branch', [FRESH(['a', 'b', 'c', 'd'], OP('conde', [INFD(V('a'), [1, 2]), EQ(q, N(1))], [INFD(L(V('b'), V('c'), V('d')), [1, 2]), REL('distinctfd', L(V('b'), V('c'), V('d'))), EQ(q, N(2))], [INFD(L(V('a'), V('b')), [1, 2]), REL('diseqfd', V('a'), V('b')), EQ(q, N(3))]))], 'multiset', 40))
    return t


def tree_constraints():
    """eq / diseq programs (CLP(Tree)) in several goal orders."""
    t = []
    base = [
        ('d1', [EQ(q, L(x, y)), NE(x, P(0)), EQ(x, P(1))]),
        ('d2', [EQ(q, L(x, y)), NE(L(x, y), L(P(0), P(1))), EQ(x, P(2))]),
        ('d3', [EQ(q, L(x, y)), NE(L(x, x), L(y, P(0))), EQ(x, P(1))]),
        ('d4', [EQ(q, L(x, y)), NE(x, L(P(0), y)), EQ(y, P(1))]),
        ('d5', [EQ(q, L(x, y)), NE(x, P(0)), NE(L(x, y), L(P(0), P(1))), EQ(y, P(2))]),
        ('d6', [EQ(q, L(x, y)), NE(L(x, y), L(P(0), P(1))), NE(x, P(0)), EQ(y, P(2))]),
        ('d7', [EQ(q, L(x, y)), NE(x, y), OP('conde', EQ(x, P(0)), EQ(y, P(1))), EQ(y, P(2))]),
        ('d8', [EQ(q, L(x, y)), NE(x, LI([P(0)], y)), EQ(y, L(P(1)))]),
        ('d9', [EQ(q, L(x, y)), NE(L(x, P(0)), L(P(1), y)), NE(y, P(0))]),
        ('d10', [EQ(q, L(x, y)), NE(x, y), EQ(x, y)]),
        ('d11', [EQ(q, L(x, y)), EQ(x, L(y)), NE(x, L(P(0)))]),
    ]
    HM = dict(hash_modes=('reverse',))      # the constraint store is a HashSet: answers must not depend on its order
    for name, body in base:
        head, rest = body[0], body[1:]
        perms = list(itertools.permutations(rest))
        for i, pm in enumerate(perms[:6]):
            t.append(T('tree_%s_o%d' % (name, i), [FRESH(['x', 'y'], head, *pm)], 'multiset', **HM))
    # a stronger disequality posted after a weaker one, with other constraints in the store (normalisation must not lose them)
    xyz, w_ = L(x, y, z), V('w')
    t.append(T('tree_subsume_keep_others', [FRESH(['x', 'y', 'z'], EQ(q, xyz), NE(y, P(0)), NE(L(x, y), L(P(1), P(2))), NE(z, P(0)), NE(x, P(1)), OP('conde', EQ(y, P(0)), EQ(z, P(0)), EQ(x, P(1)), EQ(xyz, L(P(2), P(2), P(2)))))], 'multiset', 24, hash_modes=('reverse', 'rotate')))
    t.append(T('tree_subsume_keep_others4', [FRESH(['x', 'y', 'z', 'w'], EQ(q, L(x, y, z, w_)), NE(y, P(0)), NE(z, P(0)), NE(L(x, w_), L(P(1), P(2))), NE(w_, P(0)), NE(x, P(1)), OP('conde', EQ(y, P(0)), EQ(z, P(0)), EQ(w_, P(0)), EQ(x, P(1)), TRUE))], 'multiset', 24, hash_modes=('reverse', 'rotate')))
    return t


def MATCH(kind, term, *arms):
    """arms: (pattern | [patterns], body goal | [goals])"""
    out = []
    for pats, body in arms:
        if isinstance(pats, tuple):
            pats = [pats]
        if isinstance(body, tuple):
            body = [body]
        out.append((list(pats), list(body)))
    return ('match', kind, term, out)


def infinite():
    """loop / anyo: every produced answer must be an answer of the body (prefix of an infinite stream)."""
    t = []
    # (a filter must never be able to remove every answer of a round: the program would really diverge)
    t.append(T('loop_single', [('loop', [OP('conde', EQ(q, P(0)), EQ(q, N(7)))]), NE(q, P(1))], 'subset', 6))
    t.append(T('loop_two_clauses', [FRESH(['x', 'y'], EQ(q, L(x, y)), ('loop', [EQ(x, P(0)), EQ(y, P(1))]))], 'subset', 5))
    t.append(T('loop_clause_and_filter', [('loop', [OP('conde', EQ(q, P(0)), EQ(q, N(7))), NE(q, P(0))])], 'subset', 5))
    t.append(T('anyo_bracketed', [FRESH(['x', 'y'], EQ(q, L(x, y)), ('anyo', [[EQ(x, P(0)), OP('conde', EQ(y, P(1)), EQ(y, P(2)))]]))], 'subset', 6))
    t.append(T('conde_with_loop_branch', [OP('conde', [('loop', [EQ(q, P(0))])], EQ(q, P(1)))], 'subset', 6))
    return t


def for_everyg():
    """`for` bodies can only mention the loop variable and literals (the macro's closure is not `move`);
    symbolic parameters enter through the collection elements and the surrounding goals."""
    t = []
    a, b, c, e = V('a'), V('b'), V('c'), V('e')
    mem12 = REL('member', e, L(N(1), N(2)))
    t.append(T('for_vec2', [EQ(q, L(a, b)), ('for', 'e', 'coll', [a, b], [mem12]), NE(a, P(0))], 'multiset', vars=['a', 'b'], colls={'coll': ('vec', [a, b])}))
    t.append(T('for_vec3_filter', [EQ(q, L(a, b, c)), EQ(c, P(0)), ('for', 'e', 'coll', [a, b, c], [NE(e, N(1)), REL('member', e, L(N(1), N(2), N(3)))])], 'multiset',
               vars=['a', 'b', 'c'], colls={'coll': ('vec', [a, b, c])}))
    t.append(T('for_empty_vec', [('for', 'e', 'coll', [], [EQ(e, N(1))]), EQ(q, P(0))], 'multiset', vars=[], colls={'coll': ('vec', [])}))
    t.append(T('for_empty_fail_body', [EQ(q, P(0)), ('for', 'e', 'coll', [], [FALSE])], 'multiset', vars=[], colls={'coll': ('vec', [])}))
    t.append(T('for_lterm_list', [EQ(q, L(a, b)), ('for', 'e', 'coll', [a, b], [OP('conde', EQ(e, N(1)), EQ(e, N(2)))]), NE(b, P(0))], 'multiset',
               vars=['a', 'b'], colls={'coll': ('lterm', [a, b])}))
    t.append(T('for_lterm_with_nil_elem', [EQ(q, L(a, b)), ('for', 'e', 'coll', [a, NIL, b], [OP('conde', EQ(e, NIL), EQ(e, N(1)))]), NE(a, P(0))], 'multiset',
               vars=['a', 'b'], colls={'coll': ('lterm', [a, NIL, b])}))
    t.append(T('for_lterm_empty', [('for', 'e', 'coll', [], [FALSE]), EQ(q, P(0))], 'multiset', vars=[], colls={'coll': ('lterm', [])}))
    t.append(T('for_shared_var', [EQ(q, a), ('for', 'e', 'coll', [a, a, P(0)], [NE(e, N(1))])], 'multiset', vars=['a'], colls={'coll': ('vec', [a, a, P(0)])}))
    mem112 = REL('member', e, L(N(1), N(1), N(2)))
    t.append(T('for_repeated_var_nondet_body', [EQ(q, a), ('for', 'e', 'coll', [a, a], [mem112])], 'multiset', 40, vars=['a'], colls={'coll': ('vec', [a, a])}))
    t.append(T('for_repeated_ground_nondet_body', [EQ(q, P(0)), ('for', 'e', 'coll', [N(1), N(1)], [mem112])], 'multiset', 40, vars=[], colls={'coll': ('vec', [N(1), N(1)])}))
    t.append(T('for_repeated_lterm_conde_body', [EQ(q, L(a, b)), EQ(a, b), ('for', 'e', 'coll', [a, b], [OP('conde', EQ(e, N(1)), EQ(e, N(1)), EQ(e, N(2)))])], 'multiset', 40, vars=['a', 'b'], colls={'coll': ('lterm', [a, b])}))
    t.append(T('for_two_clause_body', [EQ(q, L(a, b)), ('for', 'e', 'coll', [a, b], [REL('member', e, L(N(1), N(2), N(3))), NE(e, N(2))])], 'multiset', 40, vars=['a', 'b'], colls={'coll': ('vec', [a, b])}))
    t.append(T('for_two_clause_body_fail', [EQ(q, a), ('for', 'e', 'coll', [a], [EQ(e, N(1)), EQ(e, N(2))])], 'multiset', 40, vars=['a'], colls={'coll': ('vec', [a])}))
    for n_ in (3, 5, 6, 7):
        vs_ = [V('v%d' % i) for i in range(n_)]
        t.append(T('for_len%d_all_constrained' % n_, [EQ(q, L(*vs_)), ('for', 'e', 'coll', vs_, [EQ(e, N(5))])], 'multiset', 40, vars=['v%d' % i for i in range(n_)], colls={'coll': ('vec', vs_)}))
    t.append(T('for_len3_last_fails', [EQ(q, P(0)), ('for', 'e', 'coll', [N(1), N(1), N(2)], [EQ(e, N(1))])], 'multiset', 40, vars=[], colls={'coll': ('vec', [N(1), N(1), N(2)])}))
    t.append(T('for_ground_elems', [EQ(q, P(2)), ('for', 'e', 'coll', [P(0), P(1)], [NE(e, N(0))])], 'multiset', vars=[], colls={'coll': ('vec', [P(0), P(1)])}))
    return t


def project_ops():
    t = []
    S = lambda u, v: REL('succ', u, v)
    t.append(T('project_once', [FRESH(['x'], EQ(x, P(0)), ('project', ['x'], [S(x, q)]))], 'multiset'))
    t.append(T('project_unbound_fails', [FRESH(['x'], ('project', ['x'], [S(x, q)]), EQ(x, P(0)))], 'multiset'))
    t.append(T('noproject_fails', [FRESH(['x'], EQ(x, P(0)), S(x, q))], 'multiset'))
    t.append(T('project_chain', [FRESH(['x', 'y'], EQ(x, y), EQ(y, P(0)), ('project', ['x'], [S(x, q)]))], 'multiset'))
    t.append(T('project_nested_list', [FRESH(['x', 'y'], EQ(x, L(y, P(1))), EQ(y, P(0)), ('project', ['x'], [EQ(q, x)]), NE(y, P(1)))], 'multiset'))
    t.append(T('project_deep_walk', [FRESH(['x', 'y'], EQ(x, L(y, P(1))), EQ(y, P(0)), ('project', ['x'], [REL('succ_head', x, q)]))], 'multiset'))
    t.append(T('project_deep_walk_tail', [FRESH(['x', 'y', 'z'], EQ(x, LI([P(1)], y)), EQ(y, L(z)), EQ(z, P(0)), ('project', ['x'], [FRESH(['w'], REL('rest', x, w), REL('succ_head', w, q))]))], 'multiset'))
    t.append(T('project_deep_walk_member', [FRESH(['x', 'y'], EQ(x, L(y)), REL('member', y, L(P(0), P(1))), ('closure', [('project', ['x'], [REL('succ_head', x, q)])]))], 'multiset'))
    t.append(T('project_two_states_closure', [FRESH(['x'], OP('conde', EQ(x, P(0)), EQ(x, P(1))), ('closure', [('project', ['x'], [S(x, q)])]))], 'multiset'))
    t.append(T('project_member_closure', [FRESH(['x', 'y'], REL('member', y, L(P(0), P(1))), EQ(x, L(y)), ('closure', [('project', ['x'], [EQ(q, x)])]))], 'multiset'))
    SV = lambda u, v, o: REL('samevar', u, v, o)
    t.append(T('project_aliased_unbound', [FRESH(['x', 'y', 'z'], EQ(x, y), ('project', ['x', 'y', 'z'], [FRESH(['a', 'b'], SV(x, y, V('a')), SV(x, z, V('b')), EQ(q, L(V('a'), V('b'))))]))], 'multiset'))
    t.append(T('project_aliased_chain', [FRESH(['x', 'y', 'z'], EQ(x, y), EQ(z, x), ('project', ['x', 'z'], [SV(x, z, q)]))], 'multiset'))
    t.append(T('project_unbound_then_bind', [FRESH(['x'], ('project', ['x'], [EQ(x, P(0)), EQ(q, L(x))]))], 'multiset'))
    t.append(T('project_unbound_default', [FRESH(['x'], OP('conde', EQ(x, P(0)), TRUE), ('closure', [('project', ['x'], [OP('conda', [REL('succ', x, q)], [EQ(x, P(1)), EQ(q, x)])])]))], 'multiset'))
    t.append(T('project_two_states_direct', [FRESH(['x'], OP('conde', EQ(x, P(0)), EQ(x, P(1))), ('project', ['x'], [S(x, q)]))], 'multiset'))
    return t


def matching():
    t = []
    h, tl, a, b = V('h'), V('t'), V('a'), V('b')
    lst = L(P(0), P(1))
    t.append(T('match_head_tail', [MATCH('match', lst, (LI([h], tl), [EQ(q, L(h, tl))]), (NIL, [EQ(q, P(2))]))], 'multiset'))
    t.append(T('match_alternatives', [FRESH(['x'], EQ(x, P(0)), MATCH('match', x, ([N(1), N(2)], [EQ(q, P(1))]), (ANY, [EQ(q, P(2))])))], 'multiset', 24))
    t.append(T('match_repeated_name', [MATCH('match', lst, (L(a, a), [EQ(q, a)]), (L(a, b), [NE(a, b), EQ(q, L(b, a))]))], 'multiset'))
    t.append(T('match_shadow_outer', [FRESH(['a'], EQ(a, P(2)), MATCH('match', lst, (L(a, ANY), [EQ(q, a)])), NE(q, P(2)))], 'multiset'))
    t.append(T('match_wildcard_only', [FRESH(['x'], OP('conde', EQ(x, P(0)), EQ(x, L(P(1)))), MATCH('match', x, (L(ANY), [EQ(q, P(1))]), (ANY, [EQ(q, x)])))], 'multiset'))
    t.append(T('match_improper', [FRESH(['x'], EQ(x, LI([P(0)], P(1))), MATCH('match', x, (LI([h], tl), [EQ(q, L(tl, h))])))], 'multiset'))
    t.append(T('match_empty_body', [FRESH(['x'], EQ(q, x), MATCH('match', x, (NIL, []), (L(ANY), [EQ(x, L(P(0)))])))], 'multiset'))
    t.append(T('match_literal_patterns', [FRESH(['x'], REL('member', x, L(P(0), P(1), ('bool', True))), MATCH('match', x, (N(0), [EQ(q, P(2))]), (('bool', True), [EQ(q, P(0))]), (a, [NE(a, N(0)), EQ(q, a)])))], 'multiset'))
    t.append(T('matche_same', [MATCH('matche', lst, (LI([h], tl), [EQ(q, h)]), (LI([ANY, h], tl), [EQ(q, h)]))], 'multiset'))
    t.append(T('matcha_first_arm', [FRESH(['x'], OP('conde', EQ(x, P(0)), EQ(x, L(P(1)))), MATCH('matcha', x, (L(h), [EQ(q, h)]), (ANY, [EQ(q, x)])))], 'multiset'))
    t.append(T('matcha_commit_then_fail', [FRESH(['x'], EQ(x, P(0)), MATCH('matcha', x, (a, [NE(a, P(1)), EQ(q, a)]), (ANY, [EQ(q, P(2))])))], 'multiset'))
    l = V('l')
    t.append(T('match_scrutinee_shadowed', [FRESH(['l'], EQ(l, L(P(0), P(1), P(2))), MATCH('match', l, (LI([h], l), [EQ(q, L(h, l))])))], 'multiset'))
    t.append(T('match_swap_shadow', [FRESH(['x', 'y'], EQ(x, P(0)), EQ(y, P(1)), MATCH('match', L(x, y), (L(y, x), [EQ(q, L(x, y))])))], 'multiset'))
    t.append(T('matche_scrutinee_shadowed', [FRESH(['l'], EQ(l, L(P(0), P(1))), MATCH('matche', l, (LI([ANY], l), [EQ(q, l)]), (NIL, [EQ(q, P(2))])))], 'multiset'))
    t.append(T('matcha_scrutinee_shadowed', [FRESH(['l', 'x'], EQ(l, L(P(0), P(1))), EQ(x, P(2)), MATCH('matcha', L(l, x), (L(LI([x], l), ANY), [EQ(q, L(x, l))]), (ANY, [EQ(q, P(2))])))], 'multiset'))
    t.append(T('match_nested_improper_pattern', [MATCH('match', L(P(0), P(1), P(2)), (LI([a], LI([b], tl)), [EQ(q, L(tl, b, a))]))], 'multiset'))
    t.append(T('match_alternatives_different_names', [FRESH(['y', 'l'], EQ(y, P(2)), OP('conde', EQ(l, L(P(0))), EQ(l, L(P(0), P(1)))), MATCH('match', l, ([L(x, y), L(x)], [EQ(q, L(x, y))])))], 'multiset'))
    t.append(T('match_alternatives_later_lacks_name', [FRESH(['r', 'l'], EQ(l, L(P(0))), MATCH('match', l, ([L(a, V('r')), L(a)], [EQ(V('r'), P(1))])), EQ(q, V('r')))], 'multiset'))
    t.append(T('matcha_committed_arm_static_false', [FRESH(['l'], OP('conde', EQ(l, NIL), EQ(l, L(P(0)))), MATCH('matcha', l, (NIL, [FALSE]), (ANY, [EQ(q, P(1))])))], 'multiset'))
    t.append(T('matchu_committed_arm_static_false', [FRESH(['l'], EQ(l, L(P(0))), MATCH('matchu', l, (L(a), [EQ(a, P(0)), FALSE]), (ANY, [EQ(q, P(1))])), EQ(q, P(2)))], 'multiset'))
    t.append(T('matchu_first_only', [FRESH(['x'], EQ(x, L(P(0), P(1))), MATCH('matchu', x, (LI([h], ANY), [EQ(q, h)]), (LI([ANY, h], ANY), [EQ(q, h)])))], 'multiset'))
    return t


def syntax_forms():
    """Term and clause syntax (C14) and scoping of fresh variables (C15)."""
    t = []
    a, b, l = V('a'), V('b'), V('l')
    t.append(T('syn_literals', [OP('conde', EQ(q, ('bool', True)), EQ(q, ('str', 'a')), EQ(q, N(-7)), EQ(q, NIL), EQ(q, L(N(1), ('str', 'b'), ('bool', False))))], 'multiset'))
    t.append(T('syn_improper', [FRESH(['x', 'y'], EQ(LI([x, P(0)], y), L(P(1), P(0), P(2))), EQ(q, LI([y], x)))], 'multiset'))
    t.append(T('syn_nested_lists', [FRESH(['x'], EQ(q, L(L(x), L(L(P(0)), x), LI([P(1)], L(x)))), EQ(x, P(2)))], 'multiset'))
    t.append(T('syn_wildcards', [FRESH(['x'], EQ(L(ANY, x, ANY), L(P(0), P(1), P(2))), EQ(q, x))], 'multiset'))
    t.append(T('syn_wildcards_distinct', [EQ(L(ANY, ANY), L(P(0), P(1))), EQ(q, P(2))], 'multiset'))
    t.append(T('syn_true_false', [OP('conde', [TRUE, EQ(q, P(0))], [FALSE, EQ(q, P(1))], [EQ(q, P(2)), TRUE])], 'multiset'))
    t.append(T('syn_conj_brackets', [('conj', [EQ(q, P(0)), ('conj', [NE(q, P(1)), TRUE])])], 'multiset'))
    t.append(T('syn_fresh_nested', [FRESH(['x'], FRESH(['y'], EQ(x, P(0)), EQ(y, x)), FRESH(['y'], EQ(y, P(1)), EQ(q, L(x, y))))], 'multiset'))
    t.append(T('syn_shadow', [FRESH(['x'], EQ(x, P(0)), FRESH(['x'], EQ(x, P(1))), EQ(q, x))], 'multiset'))
    t.append(T('syn_shadow_in_conde', [FRESH(['x'], EQ(q, x), OP('conde', FRESH(['x'], EQ(x, P(0))), EQ(x, P(1))))], 'multiset'))
    t.append(T('syn_same_name_two_scopes', [FRESH(['a'], FRESH(['x'], EQ(x, P(0)), EQ(a, L(x))), FRESH(['x'], EQ(q, L(a, x))))], 'multiset'))
    t.append(T('syn_closure', [NE(q, P(0)), ('closure', [OP('conde', EQ(q, P(0)), EQ(q, P(1)))])], 'multiset'))
    t.append(T('syn_recursive_fresh', [FRESH(['x', 'y'], REL('append', x, y, L(P(0), P(1))), REL('append', y, x, q))], 'multiset'))
    t.append(T('syn_improper_in_tail', [FRESH(['x'], EQ(q, LI([P(0)], LI([P(1)], x))), OP('conde', EQ(x, L(P(2))), EQ(x, P(2))))], 'multiset'))
    t.append(T('syn_improper_in_tail_unify', [FRESH(['a', 'b', 'r'], EQ(L(P(0), P(1), P(2)), LI([a], LI([b], V('r')))), EQ(q, L(V('r'), b, a)))], 'multiset'))
    t.append(T('syn_improper_tail_any', [EQ(LI([P(0)], LI([P(1)], ANY)), L(P(0), P(1), P(2))), EQ(q, P(0))], 'multiset'))
    t.append(T('syn_proper_in_tail', [FRESH(['x'], EQ(q, LI([P(0)], L(P(1), x))), EQ(x, L(P(2))))], 'multiset'))
    t.append(T('syn_false_direct_in_operator', [OP('conde', FALSE, EQ(q, P(0)), [FALSE, EQ(q, P(1))], [EQ(q, P(2)), FALSE])], 'multiset'))
    t.append(T('syn_true_direct_in_operator', [OP('conde', TRUE, [TRUE, EQ(q, P(0))], FALSE)], 'multiset'))
    t.append(T('syn_false_in_onceo_conda', [OP('conde', [('onceo', [FALSE]), EQ(q, P(0))], [OP('conda', FALSE, [TRUE, EQ(q, P(1))])], [OP('condu', [FALSE, EQ(q, P(0))], EQ(q, P(2)))])], 'multiset'))
    t.append(T('syn_match_scrutinee_shadowed', [FRESH(['l'], EQ(l, L(P(0), P(1))), MATCH('match', l, (LI([a], l), [EQ(q, L(a, l))])))], 'multiset'))
    t.append(T('syn_twice_closure_fresh', [FRESH(['a', 'b'], EQ(q, L(a, b)), ('twice', REL('pick', a, b, P(0), P(1))))], 'multiset', 40))
    t.append(T('syn_two_invocations', [FRESH(['a', 'b'], EQ(q, L(a, b)), REL('pick', a, b, P(0), P(1)), REL('pick', a, b, P(0), P(1)))], 'multiset', 40))
    t.append(T('syn_nested_improper_two_heads', [FRESH(['x'], EQ(q, L(LI([P(0), P(1)], x), P(2))), OP('conde', EQ(x, L(P(0))), EQ(x, P(1))))], 'multiset'))
    t.append(T('syn_nested_improper_three_heads_unify', [FRESH(['x', 'y', 'a'], EQ(L(L(P(0), P(1), P(2), P(0)), y), L(LI([P(0), P(1), x], a), P(1))), EQ(q, L(x, a, y)))], 'multiset'))
    t.append(T('syn_empty_conjunction_clause', [OP('conde', EQ(q, P(0)), [], EQ(q, P(1)))], 'multiset'))
    t.append(T('syn_empty_conjunction_only', [OP('conde', []), EQ(q, P(0))], 'multiset'))
    t.append(T('syn_pairs', [FRESH(['x', 'y', 'z'], EQ(z, ('pair', x, P(0))), EQ(z, ('pair', P(1), y)), EQ(q, ('pair', y, x)))], 'multiset'))
    return t


def library():
    t = []
    l3 = L(P(0), P(1), P(2))
    t.append(T('lib_member_dups', [REL('member', q, L(P(0), P(1), P(0)))], 'multiset'))
    t.append(T('lib_member_check', [EQ(q, P(3)), REL('member', q, l3)], 'multiset'))
    t.append(T('lib_member_partial', [FRESH(['x', 'y'], EQ(q, L(x, y)), REL('member', P(0), L(x, P(1), y)))], 'multiset'))
    t.append(T('lib_member1', [REL('member1', q, l3)], 'multiset'))
    t.append(T('lib_member1_check', [EQ(q, P(3)), REL('member1', P(3), l3)], 'multiset'))
    t.append(T('lib_append_fwd', [REL('append', L(P(0)), L(P(1)), q)], 'multiset'))
    t.append(T('lib_append_split', [FRESH(['x', 'y'], EQ(q, L(x, y)), REL('append', x, y, l3))], 'multiset'))
    t.append(T('lib_append_prefix', [REL('append', L(P(0)), q, L(P(1), P(2)))], 'multiset'))
    t.append(T('lib_append_suffix', [REL('append', q, L(P(2)), L(P(0), P(1)))], 'multiset'))
    t.append(T('lib_rember', [REL('rember', P(3), l3, q)], 'multiset'))
    t.append(T('lib_rember_which', [REL('rember', q, L(P(0), P(1)), L(P(2)))], 'multiset'))
    t.append(T('lib_rember_var_elem', [FRESH(['x'], REL('rember', P(0), L(x, P(1)), q))], 'multiset'))
    t.append(T('lib_permute', [REL('permute', l3, q)], 'multiset'))
    t.append(T('lib_permute_check', [EQ(q, P(3)), REL('permute', L(P(0), P(1)), L(P(2), P(3)))], 'multiset'))
    t.append(T('lib_distinct', [EQ(q, P(0)), REL('distinct', l3)], 'multiset'))
    t.append(T('lib_distinct_vars', [FRESH(['x', 'y'], EQ(q, L(x, y)), REL('distinct', L(x, P(0), y)), EQ(y, P(1)))], 'multiset'))
    t.append(T('lib_cons_first_rest', [FRESH(['x', 'y', 'z'], REL('cons', P(0), L(P(1)), x), REL('first', x, y), REL('rest', x, z), EQ(q, L(x, y, z)))], 'multiset'))
    t.append(T('lib_first_rest_modes', [FRESH(['x', 'y'], REL('first', x, P(0)), REL('rest', x, L(P(1))), REL('cons', y, ANY, x), EQ(q, L(x, y)))], 'multiset'))
    t.append(T('lib_empty', [OP('conde', [REL('empty', q)], [REL('empty', L(P(0))), EQ(q, P(0))], [FRESH(['x'], REL('empty', x), EQ(q, L(x)))])], 'multiset'))
    return t


def reify_forms():
    """Closedness of answers and the constraints API (C03)."""
    t = []
    t.append(T('reify_nested_nonfirst', [FRESH(['x'], EQ(q, L(P(0), L(x))), NE(x, P(1)))], 'multiset'))
    t.append(T('reify_nested_deeper', [FRESH(['x', 'y'], EQ(q, L(P(0), L(P(1), x), y)), NE(x, NIL), NE(y, P(0)))], 'multiset'))
    t.append(T('reify_first_nested', [FRESH(['x'], EQ(q, L(L(x), P(0))), NE(x, P(1)))], 'multiset'))
    t.append(T('reify_shared', [FRESH(['x', 'y'], EQ(q, L(x, y, x)), NE(x, y))], 'multiset'))
    t.append(T('reify_value_side_var', [FRESH(['x', 'y'], EQ(q, L(x, y)), NE(x, L(P(0), y)))], 'multiset'))
    t.append(T('reify_value_side_bound_later', [FRESH(['x', 'y'], EQ(q, L(x, y)), NE(x, L(P(0), y)), EQ(y, P(1)))], 'multiset'))
    t.append(T('reify_improper_tail', [FRESH(['x', 'y'], EQ(q, LI([P(0)], x)), NE(x, L(y)), NE(y, P(1)))], 'multiset'))
    t.append(T('reify_unrelated_constraint', [FRESH(['x', 'y'], EQ(q, x), NE(y, P(0)), NE(x, P(1)))], 'multiset'))
    h_ = V('h')
    t.append(T('reify_hidden_var_multi_pair', [FRESH(['x'], EQ(q, x), FRESH(['h'], NE(L(x, h_), L(P(0), P(1)))))], 'multiset'))
    t.append(T('reify_hidden_var_multi_pair3', [FRESH(['x', 'y'], EQ(q, L(x, y)), FRESH(['h'], NE(L(x, h_, y), L(P(0), P(1), P(2))), NE(y, P(0))))], 'multiset'))
    t.append(T('reify_open_list_tail', [FRESH(['t'], EQ(q, LI([P(0)], V('t'))), NE(V('t'), NIL))], 'multiset'))
    t.append(T('reify_open_list_tail_nested', [FRESH(['t', 'h'], EQ(q, L(LI([h_], V('t')), P(0))), NE(V('t'), L(P(1))), NE(h_, P(0)))], 'multiset'))
    t.append(T('reify_pair_nested_list_constraint', [FRESH(['x', 'z'], EQ(z, L(x)), EQ(q, ('pair', P(0), z)), NE(x, P(1)))], 'multiset'))
    t.append(T('reify_pair_in_pair_constraint', [FRESH(['x', 'z'], EQ(z, ('pair', x, P(0))), EQ(q, ('pair', P(1), z)), NE(x, P(1)))], 'multiset'))
    t.append(T('reify_pair_field', [FRESH(['x', 'y', 'z'], EQ(z, ('pair', x, y)), EQ(q, L(P(0), z)), NE(y, P(1)))], 'multiset'))
    t.append(T('reify_pair_top', [FRESH(['x', 'y'], EQ(q, ('pair', x, y)), NE(x, P(0)), EQ(y, L(x)))], 'multiset'))
    return t


def compounds():
    """Tuple compounds `(a, b)` (the crate's own compound object) in eq / diseq / reification."""
    t = []
    PR = lambda a, b: ('pair', a, b)
    t.append(T('pair_unify_fields', [FRESH(['x', 'y', 'z'], EQ(z, PR(x, P(0))), EQ(z, PR(P(1), y)), EQ(q, L(x, y)))], 'multiset'))
    t.append(T('pair_vs_list', [FRESH(['z'], EQ(z, PR(P(0), P(1))), OP('conde', [EQ(z, L(P(0), P(1))), EQ(q, N(1))], [EQ(z, P(0)), EQ(q, N(2))], [EQ(z, PR(P(0), P(1))), EQ(q, N(3))]))], 'multiset'))
    t.append(T('pair_deep_walk_second', [FRESH(['x', 'y'], EQ(q, PR(P(0), x)), EQ(x, L(y, P(1))), EQ(y, P(2)))], 'sequence'))
    t.append(T('pair_deep_walk_first', [FRESH(['x', 'y'], EQ(q, PR(x, P(0))), EQ(x, L(P(1), y)), EQ(y, L(P(2))))], 'sequence'))
    t.append(T('pair_nested_pair', [FRESH(['x', 'y', 'z'], EQ(z, PR(y, P(0))), EQ(q, PR(x, z)), EQ(x, P(1)), EQ(y, L(x)))], 'sequence'))
    t.append(T('pair_occurs', [FRESH(['x'], OP('conde', [EQ(x, PR(P(0), x)), EQ(q, N(1))], [EQ(x, PR(x, x)), EQ(q, N(2))], [EQ(q, N(3))]))], 'multiset'))
    t.append(T('pair_diseq', [FRESH(['x', 'y', 'z'], EQ(q, L(x, y)), EQ(z, PR(x, y)), NE(z, PR(P(0), P(1))), EQ(x, P(2)))], 'multiset'))
    t.append(T('pair_diseq_ground', [FRESH(['z'], EQ(z, PR(P(0), P(1))), NE(z, PR(P(2), P(1))), EQ(q, P(0)))], 'multiset'))
    t.append(T('pair_fd_fields', [FRESH(['x', 'y'], EQ(q, PR(x, y)), INFDR(L(x, y), 0, 2), REL('ltfd', x, y))], 'multiset', 40))
    t.append(T('pair_fd_nested', [FRESH(['x', 'y', 'z', 'w'], EQ(z, PR(y, P(0))), EQ(w, PR(x, z)), EQ(q, L(w)), INFDR(L(x, y), 0, 1), REL('diseqfd', x, y))], 'multiset', 40))
    t.append(T('pair_occurs_through_list_field', [FRESH(['x', 'y'], OP('conde', [EQ(y, L(P(1), x)), EQ(x, PR(P(0), y)), EQ(q, N(1))], [EQ(y, LI([P(1)], x)), EQ(PR(y, P(0)), x), EQ(q, N(2))], [EQ(y, L(P(1))), EQ(x, PR(P(0), y)), EQ(q, N(3))]))], 'multiset'))
    t.append(T('pair_fd_list_field', [FRESH(['x', 'y', 'z'], EQ(z, L(y)), EQ(q, PR(x, z)), INFD(L(x, y), [1, 2]))], 'multiset', 40))
    t.append(T('pair_in_list_reify', [FRESH(['x', 'y', 'z'], EQ(z, PR(x, y)), EQ(q, L(z, x)), EQ(y, P(0)))], 'multiset'))
    return t


def CMP(name, *args):
    return ('cmp', name, list(args))


def SOME(t):
    return ('some', t)


NONE = ('none',)


def compound_structs():
    """Values of #[compound] structs (tuple-like `Leaf`, `Wrap`, `Pt`, `Tree`; `Node` with an Option<Leaf> field; named `Named`
    through match patterns), typed variables, in eq / diseq / occurs check / reification / FD labeling.  Reference: the
    tagged-list twin of every compound value."""
    t = []
    a, b = V('a'), V('b')
    t.append(T('cs_unify_fields', [FRESH(['x', 'y', 'z'], EQ(z, CMP('Pt', x, P(0))), EQ(z, CMP('Pt', P(1), y)), EQ(q, L(x, y)))], 'multiset'))
    t.append(T('cs_type_mismatch', [OP('conde', [EQ(CMP('Leaf', P(0)), L(P(0))), EQ(q, N(1))], [EQ(CMP('Leaf', P(0)), P(0)), EQ(q, N(2))],
                                       [EQ(CMP('Leaf', P(0)), CMP('Wrap', P(0))), EQ(q, N(3))], [EQ(CMP('Leaf', P(0)), CMP('Pt', P(0), P(0))), EQ(q, N(4))],
                                       [EQ(CMP('Leaf', P(0)), CMP('Leaf', P(1))), EQ(q, N(5))], [EQ(CMP('Leaf', P(0)), ('pair', P(0), P(0))), EQ(q, N(6))])], 'multiset'))
    t.append(T('cs_option_shapes', [FRESH(['x', 'y'], EQ(q, L(x, y)), OP('conde',
                                       [EQ(CMP('Node', x, SOME(CMP('Leaf', y))), CMP('Node', P(0), NONE))],
                                       [EQ(CMP('Node', x, NONE), CMP('Node', P(0), SOME(CMP('Leaf', P(1))))), EQ(y, N(0))],
                                       [EQ(CMP('Node', x, NONE), CMP('Node', P(1), NONE)), EQ(y, N(1))],
                                       [EQ(CMP('Node', x, SOME(CMP('Leaf', y))), CMP('Node', P(0), SOME(CMP('Leaf', P(1)))))]))], 'multiset'))
    t.append(T('cs_option_through_vars', [FRESH(['x', 'y', 'z'], EQ(q, z), EQ(x, CMP('Node', P(0), SOME(CMP('Leaf', z)))), OP('conde', EQ(y, CMP('Node', P(0), NONE)), EQ(y, CMP('Node', P(1), SOME(CMP('Leaf', P(2)))))), EQ(x, y))], 'multiset'))
    t.append(T('cs_diseq_fields', [FRESH(['x', 'y'], EQ(q, L(x, y)), NE(CMP('Node', x, SOME(CMP('Leaf', y))), CMP('Node', P(0), SOME(CMP('Leaf', P(1))))), EQ(x, P(2)))], 'multiset'))
    t.append(T('cs_diseq_some_none', [FRESH(['x', 'y'], EQ(q, L(x, y)), NE(CMP('Node', x, SOME(CMP('Leaf', y))), CMP('Node', P(0), NONE)), EQ(x, P(0)))], 'multiset'))
    t.append(T('cs_diseq_types', [FRESH(['x'], EQ(q, x), NE(CMP('Leaf', x), CMP('Wrap', P(0))), NE(CMP('Leaf', x), CMP('Leaf', P(1))), OP('conde', EQ(x, P(0)), EQ(x, P(1))))], 'multiset'))
    t.append(T('cs_occurs', [FRESH(['x', 'y'], OP('conde', [EQ(x, CMP('Leaf', x)), EQ(q, N(1))], [EQ(x, CMP('Pt', P(0), y)), EQ(y, CMP('Leaf', x)), EQ(q, N(2))],
                                                     [EQ(x, CMP('Node', P(0), SOME(CMP('Leaf', x)))), EQ(q, N(3))], [EQ(x, CMP('Pt', y, y)), EQ(q, N(4))]))], 'multiset'))
    t.append(T('cs_occurs_through_list_field', [FRESH(['x', 'y'], OP('conde', [EQ(y, L(P(1), x)), EQ(x, CMP('Wrap', y)), EQ(q, N(1))], [EQ(y, LI([P(1)], x)), EQ(CMP('Pt', P(0), y), x), EQ(q, N(2))], [EQ(y, L(x)), EQ(x, CMP('Pt', CMP('Leaf', y), P(0))), EQ(q, N(3))], [EQ(y, L(P(1))), EQ(x, CMP('Wrap', y)), EQ(q, N(4))]))], 'multiset'))
    t.append(T('cs_occurs_list_literal_field', [FRESH(['x'], OP('conde', [EQ(x, CMP('Wrap', L(P(0), x))), EQ(q, N(1))], [EQ(CMP('Pt', P(0), LI([P(1)], x)), x), EQ(q, N(2))], [EQ(x, CMP('Wrap', L(P(0), L(x)))), EQ(q, N(3))], [EQ(x, CMP('Wrap', L(P(0)))), EQ(q, N(4))]))], 'multiset'))
    t.append(T('cs_fd_list_field', [FRESH(['x', 'y'], EQ(q, CMP('Pt', x, L(y))), INFD(L(x, y), [1, 2]))], 'multiset', 40))
    t.append(T('cs_fd_nested_struct_field', [FRESH(['x', 'y', 'z'], EQ(q, CMP('Pt', x, CMP('Pt', y, z))), INFD(L(x, y, z), [0, 1]), REL('ltefd', x, y))], 'multiset', 40))
    t.append(T('cs_walk_star_nested', [FRESH(['x', 'y', 'z'], EQ(q, CMP('Pt', x, CMP('Leaf', y))), EQ(x, L(y, P(0))), EQ(y, CMP('Wrap', z)), EQ(z, P(1)))], 'multiset'))
    t.append(T('cs_walk_star_option', [FRESH(['x', 'y'], EQ(q, CMP('Node', x, SOME(CMP('Leaf', y)))), EQ(y, L(x)), EQ(x, P(0)))], 'multiset'))
    t.append(T('cs_reify_free_fields', [FRESH(['x', 'y'], EQ(q, CMP('Pt', x, CMP('Leaf', y))), NE(x, P(0)))], 'multiset'))
    t.append(T('cs_typed_var', [FRESH(['x: Leaf', 'y'], EQ(q, CMP('Node', P(0), SOME(x))), EQ(x, CMP('Leaf', y)), OP('conde', EQ(y, P(1)), EQ(y, L(P(2)))))], 'multiset'))
    t.append(T('cs_recursive_struct', [FRESH(['x: Tree', 'y: Tree', 'z'], EQ(CMP('Tree', z, x, y), CMP('Tree', P(0), y, x)), EQ(q, z))], 'multiset'))
    t.append(T('cs_match_unnamed', [FRESH(['z'], OP('conde', EQ(z, CMP('Leaf', P(0))), EQ(z, CMP('Wrap', P(1))), EQ(z, NIL)),
                                          MATCH('match', z, (CMP('Leaf', a), [EQ(q, L(a))]), (CMP('Wrap', a), [EQ(q, a)]), (NIL, [EQ(q, P(2))])))], 'multiset'))
    t.append(T('cs_match_named', [FRESH(['x: Leaf', 'z'], MATCH('match', z, (CMP('Named', a, b), [EQ(a, P(0)), EQ(b, x), EQ(x, CMP('Leaf', P(1)))])), EQ(q, z))], 'multiset'))
    t.append(T('cs_match_named_twice', [FRESH(['z', 'w'], MATCH('match', z, (CMP('Named', a, b), [EQ(a, P(0)), EQ(b, CMP('Leaf', P(1)))])),
                                              MATCH('match', w, (CMP('Named', a, b), [EQ(a, P(2)), EQ(b, CMP('Leaf', P(1)))])), OP('conde', [EQ(z, w), EQ(q, N(1))], [NE(z, w), EQ(q, N(2))]))], 'multiset'))
    t.append(T('cs_fd_fields', [FRESH(['x', 'y'], EQ(q, CMP('Pt', x, CMP('Leaf', y))), INFDR(L(x, y), 0, 2), REL('ltfd', x, y))], 'multiset', 40))
    t.append(T('cs_in_list_and_member', [FRESH(['x', 'y', 'z'], EQ(y, CMP('Leaf', P(0))), EQ(z, CMP('Leaf', P(1))), REL('member', x, L(y, z, P(2))), EQ(x, CMP('Leaf', q)))], 'multiset'))
    return t


def INFD(target, values):
    return ('fd', 'infd', target, list(values))


def INFDR(target, lo, hi):
    return ('fd', 'infdrange', target, (lo, hi))


def finite_domains(tier='quick'):
    modes = ('reverse',) if tier == 'quick' else ('reverse', 'rotate', 'swap', 'alternate')
    out = []
    import os
    seed = int(os.environ.get('VERIF_SEED', '0') or 0)
    for (name, prog_, npar, mode, limit, extra) in _finite_domains() + random_fd_programs(seed, 12 if tier == 'quick' else 60):
        extra = dict(extra)
        extra['hash_modes'] = modes
        out.append((name, prog_, npar, mode, limit, extra))
    return out


def _finite_domains():
    """CLP(FD) programs: concrete small domains (negative, mixed-sign, sparse), symbolic constants,
    aliasing of operands, constraints posted before / after domains and bindings."""
    t = []
    xyz = L(x, y, z)
    t.append(T('fd_plus_all', [FRESH(['x', 'y', 'z'], EQ(q, xyz), INFDR(xyz, -1, 2), REL('plusfd', x, y, z))], 'multiset', 80))
    t.append(T('fd_plus_const', [FRESH(['x', 'y'], EQ(q, L(x, y)), INFDR(L(x, y), -2, 2), REL('plusfd', x, P(0), y))], 'multiset', 40))
    t.append(T('fd_plus_alias_xx', [FRESH(['x', 'y'], EQ(q, L(x, y)), INFDR(L(x, y), -2, 3), REL('plusfd', x, x, y))], 'multiset', 40))
    t.append(T('fd_plus_alias_xxx', [FRESH(['x'], EQ(q, x), INFDR(x, -2, 2), REL('plusfd', x, x, x))], 'multiset', 40))
    t.append(T('fd_minus', [FRESH(['x', 'y', 'z'], EQ(q, xyz), INFD(L(x, y), [-2, 0, 3]), INFDR(z, -3, 3), REL('minusfd', x, y, z))], 'multiset', 60))
    t.append(T('fd_times_mixed', [FRESH(['x', 'y', 'z'], EQ(q, xyz), INFDR(L(x, y), -2, 2), INFDR(z, -4, 4), REL('timesfd', x, y, z))], 'multiset', 80))
    t.append(T('fd_times_const_zero', [FRESH(['x', 'y'], EQ(q, L(x, y)), INFDR(L(x, y), 0, 3), REL('timesfd', x, P(0), y))], 'multiset', 40))
    t.append(T('fd_times_label_second_first', [FRESH(['x', 'y', 'z'], EQ(q, L(y, x)), INFD(x, [0, 2, 5]), INFD(y, [0, 1]), INFDR(z, 0, 10), REL('timesfd', x, y, z))], 'multiset', 40))
    t.append(T('fd_lte_vars', [FRESH(['x', 'y'], EQ(q, L(x, y)), INFDR(x, -2, 1), INFD(y, [-1, 0, 3]), REL('ltefd', x, y))], 'multiset', 40))
    t.append(T('fd_lte_const', [FRESH(['x'], EQ(q, x), INFDR(x, -3, 3), REL('ltefd', x, P(0)), REL('ltefd', P(1), x))], 'multiset', 40))
    t.append(T('fd_lte_alias_left', [FRESH(['x', 'y'], EQ(q, L(x, y)), INFDR(L(x, y), -3, 3), EQ(x, y), REL('ltefd', x, P(0)))], 'multiset', 40))
    t.append(T('fd_lte_alias_other_dir', [FRESH(['x', 'y'], EQ(q, L(x, y)), INFDR(L(x, y), -3, 3), EQ(y, x), REL('ltefd', x, P(0)))], 'multiset', 40))
    t.append(T('fd_lte_before_domain', [FRESH(['x', 'y'], EQ(q, L(x, y)), REL('ltefd', x, y), INFDR(L(x, y), -1, 1))], 'multiset', 40))
    t.append(T('fd_lte_then_unify', [FRESH(['x', 'y'], EQ(q, L(x, y)), INFDR(L(x, y), -1, 2), REL('ltefd', x, y), EQ(x, y))], 'multiset', 40))
    t.append(T('fd_lt', [FRESH(['x', 'y'], EQ(q, L(x, y)), INFDR(L(x, y), 0, 3), REL('ltfd', x, y), REL('ltfd', y, P(0)))], 'multiset', 40))
    t.append(T('fd_diseq', [FRESH(['x', 'y'], EQ(q, L(x, y)), INFD(L(x, y), [-1, 0, 2]), REL('diseqfd', x, y), REL('diseqfd', x, P(0)))], 'multiset', 40))
    t.append(T('fd_distinct', [FRESH(['x', 'y', 'z'], EQ(q, xyz), INFDR(xyz, 0, 2), REL('distinctfd', xyz), REL('ltefd', x, P(0)))], 'multiset', 40))
    t.append(T('fd_distinct_bind_desc', [FRESH(['x', 'y', 'z'], EQ(q, xyz), REL('distinctfd', xyz), EQ(x, N(5)), EQ(y, N(3)), INFD(z, [3, 5, 7]))], 'multiset', 40))
    t.append(T('fd_hidden_var', [FRESH(['x', 'y'], EQ(q, x), INFDR(L(x, y), 0, 2), REL('ltfd', y, x))], 'multiset', 40))
    t.append(T('fd_domain_intersection', [FRESH(['x'], EQ(q, x), INFDR(x, -3, 1), INFD(x, [-4, -1, 1, 2]), REL('diseqfd', x, P(0)))], 'multiset', 40))
    t.append(T('fd_eq_number', [FRESH(['x', 'y'], EQ(q, L(x, y)), INFDR(L(x, y), -2, 2), REL('plusfd', x, y, N(1)), EQ(x, P(0)))], 'multiset', 40))
    t.append(T('fd_conde_domains', [FRESH(['x'], EQ(q, x), OP('conde', INFDR(x, 0, 1), INFD(x, [1, 5])), REL('ltefd', P(0), x))], 'multiset', 40))
    t.append(T('fd_distinct_bound_posted_last', [FRESH(['x', 'y'], EQ(x, P(0)), EQ(y, P(1)), EQ(q, L(x, y)), REL('distinctfd', L(x, y)))], 'multiset', 40))
    t.append(T('fd_distinct_partly_bound_last', [FRESH(['x', 'y', 'z'], EQ(x, P(0)), EQ(z, P(1)), EQ(q, xyz), INFD(y, [0, 5]), REL('distinctfd', xyz))], 'multiset', 40))
    t.append(T('fd_constraints_posted_last', [FRESH(['x', 'y', 'z'], EQ(x, P(0)), EQ(y, P(1)), EQ(z, P(2)), EQ(q, xyz), OP('conde', REL('ltfd', x, y), REL('plusfd', x, y, z), REL('diseqfd', y, z), REL('timesfd', x, y, z)))], 'multiset', 40))
    t.append(T('fd_extension_chain_value', [FRESH(['x', 'y'], EQ(q, L(x, y)), INFD(x, [1, 2]), EQ(L(x, y), L(y, P(0))))], 'multiset', 40))
    t.append(T('fd_extension_chain_value_rev', [FRESH(['x', 'y'], EQ(q, L(x, y)), INFD(x, [1, 2]), EQ(L(y, x), L(P(0), y)))], 'multiset', 40))
    t.append(T('fd_extension_chain_domains', [FRESH(['x', 'y', 'z'], EQ(q, xyz), INFD(x, [1, 2]), INFD(z, [2, 3]), EQ(L(x, y), L(y, z)))], 'multiset', 40))
    t.append(T('fd_extension_chain_disjoint', [FRESH(['x', 'y', 'z'], EQ(q, xyz), INFD(x, [1, 2]), INFD(z, [3, 4]), EQ(L(x, y), L(y, z)))], 'multiset', 40))
    t.append(T('fd_sparse_then_interval', [FRESH(['x'], EQ(q, x), INFD(x, [1, 3, 5]), INFDR(x, 2, 4))], 'multiset', 40))
    t.append(T('fd_interval_then_sparse', [FRESH(['x'], EQ(q, x), INFDR(x, 2, 4), INFD(x, [1, 3, 5]))], 'multiset', 40))
    t.append(T('fd_sparse_interval_unified', [FRESH(['x', 'y'], EQ(q, L(x, y)), INFD(x, [1, 3, 5]), INFDR(y, 2, 4), OP('conde', EQ(x, y), EQ(y, x)))], 'multiset', 40))
    HM = {}
    abcd = L(V('a'), V('b'), V('c'), V('d'))
    t.append(T('fd_store_order_contradiction', [FRESH(['a', 'b', 'c', 'd'], EQ(q, abcd), INFDR(abcd, 0, 3), REL('ltefd', V('d'), V('b')), REL('minusfd', V('c'), V('d'), V('a')), REL('plusfd', V('b'), N(1), V('d')))], 'multiset', 80, **HM))
    t.append(T('fd_store_order_contradiction_dom_last', [FRESH(['a', 'b', 'c', 'd'], EQ(q, abcd), REL('ltefd', V('d'), V('b')), REL('minusfd', V('c'), V('d'), V('a')), REL('plusfd', V('b'), N(1), V('d')), INFDR(abcd, 0, 3))], 'multiset', 80, **HM))
    h1, h2 = V('h1'), V('h2')
    all5 = L(V('a'), V('b'), V('c'), h1, h2)
    inflight = [REL('distinctfd', L(V('a'), V('b'), h1, V('c'))), REL('minusfd', h1, V('a'), V('c')), REL('minusfd', h2, h1, V('c')), REL('timesfd', h2, V('b'), V('a'))]
    t.append(T('fd_store_order_in_flight', [FRESH(['a', 'b', 'c', 'h1', 'h2'], EQ(q, all5), INFDR(all5, 0, 4), *inflight)], 'multiset', 80, **HM))
    t.append(T('fd_store_order_in_flight_dom_last', [FRESH(['a', 'b', 'c', 'h1', 'h2'], EQ(q, all5), *(inflight + [INFDR(all5, 0, 4)]))], 'multiset', 80, **HM))
    t.append(T('fd_first_run_in_flight', [FRESH(['x', 'y', 'z'], REL('plusfd', x, P(0), y), INFD(x, [0, 3, 4]), INFDR(y, 1, 3), EQ(q, xyz), REL('distinctfd', L(z, x, y)), INFDR(z, 0, 3), REL('timesfd', x, z, y))], 'multiset', 40))
    ab = L(V('a'), V('b'))
    t.append(T('fd_exclude_resolves_member', [FRESH(['a', 'b'], EQ(q, ab), INFD(V('a'), [1, 4, 6]), INFDR(V('b'), 1, 6), REL('ltefd', V('b'), V('a')), REL('distinctfd', L(V('a'), V('b'), N(1), N(6))))], 'multiset', 40))
    t.append(T('fd_exclude_resolves_member_param', [FRESH(['a', 'b'], EQ(q, ab), INFD(V('a'), [0, 2, 3]), INFDR(V('b'), 0, 3), REL('ltefd', V('b'), V('a')), REL('distinctfd', L(V('a'), V('b'), P(0), P(1))))], 'multiset', 40))
    t.append(T('fd_alias_then_narrow_to_singleton', [FRESH(['a', 'x', 'y'], EQ(q, L(x, y)), EQ(V('a'), x), REL('diseqfd', V('a'), y), INFD(y, [3]), INFD(x, [3, 4, 5]), INFD(x, [1, 2, 3]))], 'multiset', 40))
    t.append(T('fd_alias_lt_narrow', [FRESH(['a', 'x', 'y'], EQ(q, L(x, y)), EQ(V('a'), x), REL('ltfd', V('a'), y), INFDR(y, 0, 2), INFD(x, [2, 4]), INFDR(x, 0, 3))], 'multiset', 40))
    t.append(T('fd_times_mixed_sign_const', [FRESH(['x', 'y'], EQ(q, L(x, y)), INFDR(L(x, y), -3, 3), REL('timesfd', x, y, P(0)))], 'multiset', 60))
    t.append(T('fd_times_mixed_sign_asym', [FRESH(['x', 'y'], EQ(q, L(x, y)), INFDR(x, -2, 4), INFDR(y, -4, 1), REL('timesfd', x, y, N(-4)))], 'multiset', 60))
    t.append(T('fd_nested_list_query_free', [FRESH(['x', 'y', 'z'], EQ(q, L(L(x, y), z)), INFDR(L(x, y, z), 0, 1))], 'multiset', 60))
    t.append(T('fd_nested_list_query_sum', [FRESH(['s', 'x', 'y'], EQ(q, L(V('s'), L(x, y))), INFDR(L(x, y), 0, 2), INFDR(V('s'), 0, 4), REL('plusfd', x, y, V('s')), REL('ltefd', x, y))], 'multiset', 60))
    t.append(T('fd_hidden_pigeonhole_backtrack', [FRESH(['a', 'b', 'c', 'd'], INFDR(q, 0, 1), INFD(V('a'), [0, 3]), INFDR(L(V('b'), V('c'), V('d')), 0, 2), REL('distinctfd', L(V('a'), V('b'), V('c'), V('d'))), REL('ltefd', q, V('a')))], 'multiset', 60))
    t.append(T('fd_singleton_domain_after_constraint', [FRESH(['x', 'y'], EQ(q, L(x, y)), REL('ltefd', x, y), OP('conde', [INFD(x, [2]), INFD(y, [1])], [INFD(x, [1]), INFD(y, [2])], [INFD(y, [0]), INFD(x, [0, 1]), INFD(x, [1, 2])]))], 'multiset', 40))
    t.append(T('fd_singleton_domain_plus', [FRESH(['x', 'y'], EQ(q, L(x, y)), REL('plusfd', x, y, P(0)), INFD(x, [1]), INFD(y, [0, 1, 2]), INFD(y, [2, 3]))], 'multiset', 40))
    t.append(T('fd_hidden_alias_square', [FRESH(['x', 'y'], INFDR(L(x, y), 0, 3), EQ(x, y), REL('timesfd', x, x, q), INFDR(q, 0, 9))], 'multiset', 40))
    t.append(T('fd_hidden_alias_diseq', [FRESH(['x', 'y'], INFDR(L(x, y), 0, 1), EQ(y, x), REL('diseqfd', x, y), EQ(q, P(0)))], 'multiset', 40))
    t.append(T('fd_list_query', [FRESH(['x', 'y'], EQ(q, L(L(x), y)), INFDR(L(x, y), 0, 1), REL('diseqfd', x, y))], 'multiset', 40))
    return t


def user_hooks():
    """Programs run with the counting User type; `probe(b)` binds b to [with - take - |store|, #process_extension calls, size of the last extension]."""
    t = []
    b1, b2, b3 = V('b1'), V('b2'), V('b3')
    pr = lambda v: REL('probe', v)
    U = dict(user='CntUser')
    t.append(T('hooks_diseq_lifecycle', [FRESH(['x', 'y', 'b1', 'b2', 'b3'], EQ(q, L(b1, b2, b3)), NE(x, P(0)), pr(b1), NE(L(x, y), L(P(0), P(1))), pr(b2), EQ(x, P(2)), pr(b3))], 'multiset', **U))
    t.append(T('hooks_diseq_weaker_first', [FRESH(['x', 'y', 'b1', 'b2', 'b3'], EQ(q, L(b1, b2, b3)), NE(L(x, y), L(P(0), P(1))), pr(b1), NE(x, P(0)), pr(b2), EQ(y, P(2)), pr(b3))], 'multiset', **U))
    t.append(T('hooks_diseq_dropped', [FRESH(['x', 'b1', 'b2'], EQ(q, L(b1, b2)), NE(x, P(0)), NE(x, P(1)), pr(b1), EQ(x, P(2)), pr(b2))], 'multiset', **U))
    t.append(T('hooks_extension_sizes', [FRESH(['x', 'y', 'b1', 'b2', 'b3'], EQ(q, L(b1, b2, b3)), EQ(L(x, y), L(P(0), P(1))), pr(b1), EQ(x, P(2)), pr(b2), EQ(L(y, x), L(P(1), P(0))), pr(b3))], 'multiset', **U))
    t.append(T('hooks_extension_branches', [FRESH(['x', 'b1', 'b2'], EQ(q, L(x, b1, b2)), OP('conde', EQ(x, P(0)), EQ(x, P(1))), pr(b1), EQ(x, P(0)), pr(b2))], 'multiset', **U))
    RB = dict(user='CntUser', reify_balance=True)
    t.append(T('hooks_balance_after_reify_distinct', [FRESH(['x', 'y'], EQ(q, L(x, y)), INFD(L(x, y), [1, 2]), REL('distinctfd', L(x, y)))], 'multiset', 24, **RB))
    t.append(T('hooks_balance_after_reify_mixed', [FRESH(['x', 'y', 'z'], EQ(q, L(x, z)), NE(z, P(0)), INFD(L(x, y), [1, 2]), REL('distinctfd', L(x, y)), EQ(x, N(1)))], 'multiset', 24, **RB))
    t.append(T('hooks_balance_after_reify_diseq', [FRESH(['x', 'y'], EQ(q, L(x, y)), NE(x, P(0)), NE(L(x, y), L(P(1), P(2))), OP('conde', EQ(y, P(2)), TRUE))], 'multiset', 24, **RB))
    t.append(T('hooks_fd_cascade', [FRESH(['x', 'y', 'z', 'b1', 'b2'], EQ(q, L(b1, b2)), INFD(L(x, y, z), [1, 2]), REL('diseqfd', x, y), REL('diseqfd', x, z), pr(b1), EQ(x, N(1)), pr(b2))], 'multiset', **U))
    return t


def clpz_programs():
    t = []
    t.append(T('z_plus_diseq', [NE(q, P(0)), REL('plusz', P(1), q, P(2))], 'multiset'))
    t.append(T('z_plus_diseq_after', [REL('plusz', P(1), q, P(2)), NE(q, P(0))], 'multiset'))
    t.append(T('z_times_diseq', [FRESH(['x'], EQ(q, x), NE(x, P(0)), REL('timesz', P(1), x, P(2)))], 'multiset'))
    t.append(T('z_chain', [FRESH(['x', 'y'], EQ(q, L(x, y)), REL('plusz', x, P(0), y), REL('timesz', P(1), x, P(2)), NE(y, P(0)))], 'multiset'))
    t.append(T('z_sum_to_var', [FRESH(['x', 'y'], EQ(q, L(x, y)), NE(y, P(2)), REL('plusz', P(0), P(1), y), EQ(x, y))], 'multiset'))
    return t


def fd_panic_programs():
    """FD programs whose constrained variables are hidden from the query variable / aliased (verify_all_bound paths)."""
    t = []
    t.append(T('fdp_alias_hidden', [FRESH(['x', 'y', 'z'], EQ(q, P(0)), INFDR(L(x, y, z), 0, 2), EQ(x, y), REL('ltefd', x, z))], 'multiset', 40))
    t.append(T('fdp_alias_hidden_rev', [FRESH(['x', 'y', 'z'], EQ(q, P(0)), INFDR(L(x, y, z), 0, 2), EQ(y, x), REL('diseqfd', x, z))], 'multiset', 40))
    t.append(T('fdp_plus_hidden', [FRESH(['x', 'y', 'z'], EQ(q, z), INFDR(L(x, y, z), 0, 2), EQ(x, y), REL('plusfd', x, y, z))], 'multiset', 40))
    return t


def permutations_family(max_perms=6):
    """C04: every permutation of a conjunction / of the clauses of a disjunction is compared with the
    reference answers of the BASE order (one reference for the whole orbit)."""
    t = []
    bases = [
        ('pa', ['x', 'y'], [EQ(q, L(x, y)), OP('conde', EQ(x, P(0)), EQ(x, P(1))), NE(x, y), OP('conde', EQ(y, P(0)), EQ(y, P(2)))]),
        ('pb', ['x', 'y'], [EQ(q, L(x, y)), NE(L(x, y), L(P(0), P(1))), EQ(x, P(2)), NE(y, P(0))]),
        ('pc', ['x', 'y'], [EQ(q, L(x, y)), INFDR(L(x, y), -1, 2), REL('plusfd', x, y, P(0)), REL('ltefd', x, y)]),
        ('pd', ['x', 'y'], [EQ(q, L(x, y)), INFD(x, [0, 1, 3]), INFDR(y, 0, 3), REL('diseqfd', x, y), EQ(y, P(0))]),
        ('pe', ['x', 'y'], [EQ(q, L(x, y)), REL('member', x, L(P(0), P(1))), REL('member', y, L(P(1), P(2))), NE(x, y)]),
        ('pf', ['x', 'y'], [EQ(q, L(x, y)), NE(L(x, y), L(y, P(0))), EQ(x, P(1)), OP('conde', EQ(y, P(0)), EQ(y, P(1)))]),
        ('pg', ['x', 'y'], [EQ(q, L(x, y)), INFD(x, [1, 3, 5]), INFDR(y, 2, 4), EQ(x, y)]),
        ('ph', ['x'], [EQ(q, x), INFD(x, [1, 3, 5]), INFDR(x, 2, 4)]),
        ('pi', ['x', 'y'], [EQ(q, L(x, y)), EQ(x, P(0)), EQ(y, P(1)), REL('distinctfd', L(x, y))]),
        ('pj', ['x', 'y'], [EQ(q, L(x, y)), INFD(x, [1, 2]), EQ(L(x, y), L(y, P(0)))]),
        ('pl', ['x', 'y', 'a', 'b'], [EQ(q, L(x, y)), REL('ltefd', x, y), EQ(x, V('a')), EQ(y, V('b')), EQ(V('a'), P(0)), EQ(V('b'), P(1))]),
        ('pm', ['x', 'y', 'a'], [EQ(q, L(x, y)), REL('diseqfd', x, y), EQ(x, V('a')), EQ(V('a'), P(0)), EQ(y, P(1))]),
        ('pn', ['x', 'y'], [EQ(q, L(x, y)), REL('distinctfd', L(x, y)), EQ(x, P(0)), INFD(y, [0, 1, 2])]),
        ('pk', ['x', 'y'], [EQ(q, L(x, y)), EQ(x, P(0)), EQ(y, P(1)), REL('ltfd', x, y), REL('diseqfd', x, P(2))]),
    ]
    for name, vs, goals in bases:
        base = [FRESH(vs, *goals)]
        perms = list(itertools.permutations(range(len(goals))))
        n = len(goals)
        chosen = []
        # identity, reverse and all rotations first (every goal is posted first and last at least once), then an even sample
        for pm in [tuple(range(n)), tuple(reversed(range(n)))] + [tuple((i + r) % n for i in range(n)) for r in range(1, n)] + perms[::max(1, len(perms) // max_perms)]:
            if pm not in chosen:
                chosen.append(pm)
        for i, pm in enumerate(chosen[:max(max_perms, n + 1)] if max_perms < len(perms) else perms):
            t.append(T('perm_%s_c%d' % (name, i), [FRESH(vs, *[goals[j] for j in pm])], 'multiset', 40, ref_prog=base))
    dis = [
        ('da', [[EQ(q, P(0))], [EQ(q, P(1)), NE(q, P(0))], [FRESH(['x'], EQ(q, L(x)), NE(x, P(2)))]]),
        ('db', [[REL('member', q, L(P(0), P(1)))], [EQ(q, P(2))], [FALSE], [EQ(q, P(0))]]),
        ('dc', [[EQ(q, P(0))], [TRUE], [EQ(q, P(1))]]),
    ]
    for name, cls in dis:
        base = [('conde', cls)]
        perms = list(itertools.permutations(range(len(cls))))
        step = max(1, len(perms) // max_perms)
        for i, pm in enumerate(perms[::step][:max_perms]):
            t.append(T('perm_%s_d%d' % (name, i), [('conde', [cls[j] for j in pm])], 'multiset', 40, ref_prog=base))
    return t


def fairness():
    """C07 (bounded): answers of a finite branch must show up among the first answers although other
    branches are infinite producers (`always`) or silent divergers (`never`)."""
    t = []
    t.append(T('fair_never_first', [OP('conde', REL('never'), EQ(q, P(0)))], 'covers', 1))
    t.append(T('fair_never_last', [OP('conde', EQ(q, P(0)), REL('never'))], 'covers', 1))
    t.append(T('fair_never_mid3', [OP('conde', EQ(q, P(0)), REL('never'), EQ(q, P(1)))], 'covers', 2))
    t.append(T('fair_two_always', [OP('conde', [REL('always'), EQ(q, P(0))], [REL('always'), EQ(q, P(1))])], 'covers', 6))
    t.append(T('fair_always_and_finite', [OP('conde', [REL('always'), EQ(q, P(0))], EQ(q, P(1)), [REL('never'), EQ(q, P(2))])], 'covers', 6))
    t.append(T('fair_loop_branch', [OP('conde', [('loop', [EQ(q, P(0))])], EQ(q, P(1)))], 'covers', 6))
    t.append(T('fair_nevero_first', [OP('conde', REL('nevero', q), EQ(q, P(0)))], 'covers', 1))
    t.append(T('fair_nevero_nested', [OP('conde', EQ(q, P(0)), OP('conde', REL('nevero', q), EQ(q, P(1))))], 'covers', 2))
    t.append(T('fair_dfs_never_branch', [OP('conde', ('dfs', [REL('spin')]), EQ(q, P(0)))], 'covers', 1))
    t.append(T('fair_dfs_cond_never_branch', [OP('conde', ('dfs', [OP('cond', [REL('spin'), EQ(q, P(0))], REL('spin'))]), REL('member', q, L(P(1), P(2))))], 'covers', 2))
    t.append(T('fair_onceo_never_branch', [OP('conde', EQ(q, P(0)), ('onceo', [REL('never')]))], 'covers', 1))
    t.append(T('fair_onceo_never_first', [OP('conde', ('onceo', [REL('never')]), EQ(q, P(0)))], 'covers', 1))
    t.append(T('fair_conda_never_head', [OP('conde', OP('conda', [REL('never'), EQ(q, P(1))]), EQ(q, P(0)))], 'covers', 1))
    t.append(T('fair_condu_nevero_head', [OP('conde', EQ(q, P(0)), OP('condu', [REL('nevero', q), EQ(q, P(2))]))], 'covers', 1))
    t.append(T('fair_onceo_slow_head', [OP('conde', ('onceo', [REL('always'), REL('member', q, L(P(0), P(1)))]), EQ(q, P(2)))], 'covers', 2))
    t.append(T('fair_loop_body_diverges_after_answer', [('loop', [OP('conde', REL('never'), EQ(q, P(0)))])], 'covers', 3))
    t.append(T('fair_loop_body_infinite_and_finite', [('loop', [OP('conde', [('loop', [EQ(q, P(0))])], EQ(q, P(1)))])], 'covers', 8))
    t.append(T('fair_nested', [OP('conde', OP('conde', REL('never'), [REL('always'), EQ(q, P(0))]), EQ(q, P(1)))], 'covers', 6))

    # balanced trees of silent divergers (2^d `never` leaves) next to a disjunction of infinite producers / finite goals:
    # scheduling decisions that depend on the SHAPE of both mplus operands only show up with deep immature trees on both sides
    def ntree(d):
        return REL('never') if d == 0 else OP('conde', ntree(d - 1), ntree(d - 1))
    for d in (2, 3):
        two = OP('conde', [REL('always'), EQ(q, P(0))], [REL('always'), EQ(q, P(1))])
        t.append(T('fair_nevertree%d_then_two_always' % d, [OP('conde', ntree(d), two)], 'covers', 6))
        t.append(T('fair_two_always_then_nevertree%d' % d, [OP('conde', two, ntree(d))], 'covers', 6))
        t.append(T('fair_nevertree%d_then_finite_pair' % d, [OP('conde', ntree(d), OP('conde', EQ(q, P(0)), [REL('always'), EQ(q, P(1))]))], 'covers', 4))
    return t


def determinism(tier='quick'):
    """C09: programs whose constraint / domain stores hold several entries while they are iterated."""
    t = []
    H = dict(hash_orders=2, order_modes=('reverse',) if tier == 'quick' else ('reverse', 'rotate', 'alternate', 'swap'))
    t.append(T('det_fd_two_constraints', [FRESH(['x', 'y', 'z'], EQ(q, L(x, y, z)), INFDR(L(x, y, z), 0, 2), REL('ltefd', x, y), REL('diseqfd', y, z), REL('ltefd', z, P(0)))], 'multiset', 40, **H))
    t.append(T('det_fd_plus_lte', [FRESH(['x', 'y'], EQ(q, L(x, y)), INFDR(L(x, y), -1, 2), REL('plusfd', x, y, P(0)), REL('ltefd', x, y), REL('diseqfd', x, P(1)))], 'multiset', 40, **H))
    t.append(T('det_fd_hidden', [FRESH(['x', 'y', 'z'], EQ(q, x), INFDR(L(x, y, z), 0, 2), REL('ltfd', y, x), REL('diseqfd', z, x))], 'multiset', 40, **H))
    t.append(T('det_diseq_three', [FRESH(['x', 'y'], EQ(q, L(x, y)), NE(x, P(0)), NE(y, P(1)), NE(L(x, y), L(P(1), P(0))), OP('conde', EQ(x, P(1)), EQ(y, P(0))))], 'multiset', 40, **H))
    t.append(T('det_distinct', [FRESH(['x', 'y', 'z'], EQ(q, L(x, y, z)), INFDR(L(x, y, z), 0, 2), REL('distinctfd', L(x, y, z)), REL('ltefd', x, P(0)))], 'multiset', 40, **H))
    t.append(T('det_clpz_store', [FRESH(['x', 'y', 'z'], EQ(q, L(x, y, z)), REL('plusz', x, y, z), REL('timesz', x, P(0), y), NE(z, P(1)), EQ(x, P(2)))], 'multiset', 40, **H))
    t.append(T('det_hidden_labeling', [FRESH(['x', 'y'], INFDR(L(x, y), 1, 2), REL('diseqfd', x, y), NE(q, x))], 'multiset', 40, **H))
    t.append(T('det_hidden_labeling3', [FRESH(['x', 'y', 'z'], INFDR(L(x, y, z), 0, 2), REL('distinctfd', L(x, y, z)), EQ(q, L(P(0), z)))], 'multiset', 40, **H))
    t.append(T('det_hidden_lt_chain', [FRESH(['x', 'y', 'z'], INFDR(L(x, y, z), 0, 3), REL('ltfd', x, y), REL('ltfd', y, z), REL('plusfd', x, z, q), INFDR(q, 0, 6))], 'multiset', 40, **H))
    t.append(T('det_queens3', [FRESH(['x', 'y', 'z', 'w', 'v'], EQ(q, L(x, y, z)), INFDR(L(x, y, z), 1, 4), REL('distinctfd', L(x, y, z)), REL('diseqfd', x, y), REL('plusfd', x, N(1), w), INFDR(w, 0, 6), REL('diseqfd', w, y), REL('plusfd', y, N(1), V('v')), INFDR(V('v'), 0, 6), REL('diseqfd', V('v'), z))], 'multiset', 80, **H))
    t.append(T('det_fused_empty', [EQ(q, P(0)), EQ(q, P(1))], 'multiset', 40))
    t.append(T('det_diseq_subsumed_later', [FRESH(['x', 'y', 'z'], EQ(q, L(x, y, z)), NE(L(x, y), L(P(0), P(1))), NE(z, P(2)), NE(y, P(2)), NE(x, P(0)))], 'multiset', 40, **H))
    t.append(T('det_lazy_dfs_prefix', [('dfs', [OP('cond', REL('member', q, L(P(0), P(1))), REL('spin'))])], 'covers', 2))
    t.append(T('det_lazy_dfs_branch', [OP('conde', ('dfs', [OP('cond', [REL('spin'), EQ(q, P(0))], REL('spin'))]), REL('member', q, L(P(1), P(2))))], 'covers', 2))
    t.append(T('det_lazy_prefix', [OP('conde', [('loop', [EQ(q, P(0))])], EQ(q, P(1)))], 'covers', 5))
    return t


# ---------------------------------------------------------------------------------------------
# Random program generator (thorough tiers; quick tiers take a few with a fixed seed)
# ---------------------------------------------------------------------------------------------

def _rterm(rng, vs, depth=1, atoms=True):
    r = rng.random()
    if r < 0.35:
        return V(rng.choice(vs))
    if r < 0.6 and atoms:
        return P(rng.randrange(3))
    if r < 0.66 and atoms:
        return rng.choice([NIL, N(0), ('str', 'a')])
    if depth <= 0:
        return V(rng.choice(vs))
    if r < 0.86:
        return L(*[_rterm(rng, vs, depth - 1) for _ in range(rng.randrange(1, 3))])
    if r < 0.94:
        return LI([_rterm(rng, vs, depth - 1)], V(rng.choice(vs)))
    return ('pair', _rterm(rng, vs, 0), _rterm(rng, vs, 0))


def _rgoal_tree(rng, vs, depth):
    r = rng.random()
    if depth < 0:
        r *= 0.65          # simple goals only (==, !=)
    if r < 0.4:
        return EQ(_rterm(rng, vs), _rterm(rng, vs))
    if r < 0.65:
        return NE(_rterm(rng, vs), _rterm(rng, vs))
    if r < 0.75:
        return REL('member', V(rng.choice(vs)), L(*[_rterm(rng, vs, 0) for _ in range(rng.randrange(1, 4))]))
    if depth <= 0:
        return EQ(V(rng.choice(vs)), _rterm(rng, vs, 0))
    if r < 0.95:
        op = rng.choice(['conde', 'conde', 'conde', 'conda', 'condu'])
        cls = []
        for _ in range(rng.randrange(2, 4)):
            cl = [_rgoal_tree(rng, vs, depth - 1) for _ in range(rng.randrange(1, 3))]
            if rng.random() < 0.12:
                cl.insert(rng.randrange(len(cl) + 1), rng.choice([TRUE, FALSE]))
            if op == 'condu':
                # which answer of a head with several answers comes first is decided by the interleaving, which the
                # reference does not fix: condu heads have at most one answer here
                cl.insert(0, _rgoal_tree(rng, vs, -1))
            cls.append(cl)
        if rng.random() < 0.1 and op != 'condu':
            cls.insert(rng.randrange(len(cls) + 1), [rng.choice([TRUE, FALSE])])
        return (op, cls)
    return ('onceo', [_rgoal_tree(rng, vs, -1) for _ in range(rng.randrange(1, 3))])


def random_tree_programs(seed, n, tag='rt'):
    """Random terminating programs over ==, !=, member, conde / conda / condu / onceo, true / false, fresh variables;
    terms: variables, parameters, literals, proper / improper lists, tuple compounds."""
    rng = random.Random(seed)
    out = []
    for i in range(n):
        vs = ['x', 'y', 'z'][:rng.randrange(2, 4)]
        goals = [_rgoal_tree(rng, vs, 2) for _ in range(rng.randrange(2, 5))]
        goals.insert(rng.randrange(len(goals) + 1), EQ(q, L(*[V(v) for v in vs])))
        committed = any(g[0] in ('conda', 'condu', 'onceo') for g in _walk_goals(goals))
        out.append(T('%s%d_s%d' % (tag, i, seed), [FRESH(vs, *goals)], 'multiset', 40))
    return out


def _walk_goals(gs):
    for g in gs:
        yield g
        if g[0] in ('conde', 'conda', 'condu', 'cond'):
            for cl in g[1]:
                for x in _walk_goals(cl):
                    yield x
        elif g[0] in ('onceo', 'fresh'):
            for x in _walk_goals(g[-1]):
                yield x


def random_fd_programs(seed, n, tag='rf'):
    """Random CLP(FD) programs: every variable gets at least one domain (interval or sparse, possibly several, possibly after
    the constraints), constraints among variables / parameters / constants, optional unifications and aliasing."""
    rng = random.Random(seed)
    out = []
    for i in range(n):
        vs = ['x', 'y', 'z'][:rng.randrange(2, 4)]
        goals = []
        lo = rng.randrange(-2, 1)
        hi = lo + rng.randrange(2, 4)
        if rng.random() < 0.6:
            goals.append(INFDR(L(*[V(v) for v in vs]), lo, hi))
        else:
            for v in vs:
                if rng.random() < 0.5:
                    goals.append(INFDR(V(v), lo + rng.randrange(0, 2), hi))
                else:
                    goals.append(INFD(V(v), sorted(set(rng.randrange(lo, hi + 2) for _ in range(3)))))
        if rng.random() < 0.3:
            goals.append(INFD(V(rng.choice(vs)), sorted(set(rng.randrange(lo, hi + 1) for _ in range(3)))))
        for _ in range(rng.randrange(1, 4)):
            r = rng.random()
            opnd = lambda: V(rng.choice(vs)) if rng.random() < 0.75 else (P(rng.randrange(2)) if rng.random() < 0.7 else N(rng.randrange(lo, hi + 1)))
            if r < 0.2:
                goals.append(REL(rng.choice(['ltefd', 'ltfd']), opnd(), opnd()))
            elif r < 0.35:
                goals.append(REL('diseqfd', opnd(), opnd()))
            elif r < 0.65:
                goals.append(REL(rng.choice(['plusfd', 'minusfd', 'timesfd']), opnd(), opnd(), opnd()))
            elif r < 0.8:
                goals.append(REL('distinctfd', L(*[opnd() for _ in range(rng.randrange(2, 4))])))
            elif r < 0.9:
                a, b = rng.sample(vs, 2)
                goals.append(EQ(V(a), V(b)))
            else:
                goals.append(EQ(V(rng.choice(vs)), P(rng.randrange(2)) if rng.random() < 0.6 else N(rng.randrange(lo, hi + 1))))
        rng.shuffle(goals)
        goals.insert(rng.randrange(len(goals) + 1), EQ(q, L(*[V(v) for v in vs])))
        out.append(T('%s%d_s%d' % (tag, i, seed), [FRESH(vs, *goals)], 'multiset', 80))
    return out


def _rgoal_dfs(rng, vs, depth):
    r = rng.random()
    if r < 0.3:
        return EQ(_rterm(rng, vs), _rterm(rng, vs))
    if r < 0.42:
        return NE(_rterm(rng, vs), _rterm(rng, vs))
    if r < 0.65:
        return REL('member', V(rng.choice(vs)), L(*[_rterm(rng, vs, 0) for _ in range(rng.randrange(2, 4))]))
    if r < 0.72:
        a, b = rng.sample(vs, 2) if len(vs) > 1 else (vs[0], vs[0])
        return REL('append', V(a), V(b), L(*[_rterm(rng, vs, 0, atoms=True) for _ in range(rng.randrange(1, 3))]))
    if depth <= 0:
        return EQ(V(rng.choice(vs)), _rterm(rng, vs, 0))
    if r < 0.92:
        cls = []
        for _ in range(rng.randrange(2, 4)):
            cl = [_rgoal_dfs(rng, vs, depth - 1) for _ in range(rng.randrange(1, 3))]
            if rng.random() < 0.1:
                cl.insert(rng.randrange(len(cl) + 1), rng.choice([TRUE, FALSE]))
            cls.append(cl)
        return ('cond', cls)
    return ('conj', [_rgoal_dfs(rng, vs, depth - 1) for _ in range(2)])


def random_dfs_programs(seed, n, tag='rd'):
    """Random terminating programs inside `dfs { }` (==, !=, member, append, cond, bracketed conjunctions): the answer SEQUENCE
    must be the depth-first, left-to-right one."""
    rng = random.Random(seed * 7919 + 13)
    out = []
    for i in range(n):
        vs = ['x', 'y', 'z'][:rng.randrange(2, 4)]
        goals = [_rgoal_dfs(rng, vs, 2) for _ in range(rng.randrange(2, 5))]
        goals.insert(rng.randrange(len(goals) + 1), EQ(q, L(*[V(v) for v in vs])))
        out.append(T('%s%d_s%d' % (tag, i, seed), [FRESH(vs, ('dfs', goals))], 'sequence', 200, max_steps=6000000))
    return out
