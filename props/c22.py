"""C22 — User extension hooks observe a consistent constraint lifecycle (Engine M, whole programs with a counting User type)."""
import progprop
import tmpl
from progprop import replay


def run(tier):
    return progprop.run('C22', tier, tmpl.user_hooks(), 'c22',
                        'Programs are run with a User type (defined in the generated template crate) that counts with_constraint / take_constraint / '
                        'process_extension calls in its per-state data; a probe goal placed between the goals binds a query component to '
                        '[with - take - number of constraints in the store, number of process_extension calls, size of the last extension]. Executed symbolically '
                        'from MIR and compared with the reference: the balance must be 0 at every probe, process_extension must have been called once per '
                        'successful unification so far with exactly that unification\'s new bindings.',
                        extra_assume=['U = CntUser (generated), probes bind their output directly in the substitution so that they do not disturb the counters'])
