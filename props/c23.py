"""C23 — Solving well-formed programs never panics (Engine M: every template family, panics only)."""
import progprop
import tmpl
from progprop import replay


def run(tier):
    fams = (tmpl.clpz_programs() + tmpl.fd_panic_programs() + [t for t in tmpl.finite_domains() if not t[0].startswith('rf')][:10] + [t for t in tmpl.finite_domains() if t[0].startswith(('fd_distinct_', 'fd_constraints_posted_last', 'fd_extension_chain', 'fd_first_run'))] + tmpl.for_everyg()[:5] +
            tmpl.matching()[:5] + tmpl.compounds()[:5] + [t for t in tmpl.project_ops() if t[0] != 'project_two_states_direct'] +
            tmpl.committed()[:4] + tmpl.search_dfs()[:3])
    return progprop.run('C23', tier, fams, 'c23',
                        'Well-formed programs of every template family (CLP(Z) with disequalities, CLP(FD) with aliased and hidden variables, project inside '
                        'closures, for, pattern matching, compounds, committed choice, dfs) are executed symbolically from MIR through solving, labeling and '
                        'reification; every reachable panic! / unwrap / index / arithmetic-overflow site that a feasible path hits is reported with the concrete '
                        'parameters and replayed natively. (Answer disagreements found on the way are reported too.)')
