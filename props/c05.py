"""C05 — Depth-first search yields answers in Prolog order (Engine M, whole programs)."""
import progprop
import tmpl
from progprop import replay


def run(tier):
    import os
    seed = int(os.environ.get('VERIF_SEED', '0') or 0)
    return progprop.run('C05', tier, tmpl.search_dfs() + tmpl.random_dfs_programs(seed, 16 if tier == 'quick' else 100), 'c05',
                        'Programs wrapped in dfs { } are executed symbolically from MIR (real macro expansion, real engine); on every feasible '
                        'path the SEQUENCE of answers must equal the depth-first, left-to-right answer sequence of the reference interpreter. '
                        'Generated dfs programs (random_dfs_programs: ==, !=, member, append, cond, bracketed conjunctions; 16 quick / 100 thorough, seeded by VERIF_SEED) are decided the same way.')
