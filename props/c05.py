"""C05 — Depth-first search yields answers in Prolog order (Engine M, whole programs)."""
import progprop
import tmpl
from progprop import replay


def run(tier):
    return progprop.run('C05', tier, tmpl.search_dfs(), 'c05',
                        'Programs wrapped in dfs { } are executed symbolically from MIR (real macro expansion, real engine); on every feasible '
                        'path the SEQUENCE of answers must equal the depth-first, left-to-right answer sequence of the reference interpreter.')
