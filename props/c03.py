"""C03 — Answers are fully reified, closed and carry their relevant constraints (Engine M, whole programs)."""
import progprop
import tmpl
from progprop import replay


def run(tier):
    return progprop.run('C03', tier, tmpl.reify_forms() + tmpl.tree_constraints()[:12], 'c03',
                        'Programs that leave variables unbound inside lists / tuple compounds with disequalities on them are executed symbolically from MIR '
                        'through the real reification pipeline (reify goal, ResultIterator::next, LResult). Checked per feasible path on the real result objects: '
                        'no program variable survives in an answer term or reported constraint; LResult::constraints()/is_constrained() (real code) return '
                        'exactly the reported constraints that have an operand among the `_` variables occurring anywhere in the answer term; and the answers '
                        'agree with the reference semantics.')
