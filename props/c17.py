"""C17 — shares the CLP(FD) templates with C16 (multiset equality with brute force covers both directions)."""
import c16
from progprop import replay


def run(tier):
    return c16.run(tier, 'C17')
