"""C07 — Interleaving disjunction is fair and productive (Engine M, bounded form)."""
import progprop
import tmpl
from progprop import replay


def run(tier):
    return progprop.run('C07', tier, tmpl.fairness(), 'c07',
                        'Bounded form of fairness: disjunctions that mix finite goals with infinite producers (always, loop) and silent divergers (never) are '
                        'executed symbolically from MIR; every answer of every finite / productive branch must occur among the first N answers (N = 1..6 as listed per '
                        'template) and within the executor\'s step bound, and nothing else may be produced. A liveness claim proper is not made: only these prefixes.',
                        extra_assume=['bounded: first N answers, at most 2,000,000 MIR steps per path; a fair engine with a very different scheduling could need a larger N'])
