"""C14/C15 — Surface syntax translates to the documented goals and terms; fresh variables are distinct (Engine M)."""
import progprop
import tmpl
from progprop import replay


def run(tier, prop='C14'):
    return progprop.run(prop, tier, tmpl.syntax_forms(), prop.lower(),
                        'Surface programs covering the clause grammar (==, !=, [..] conjunctions, conde, fresh with shadowing and same-named variables in '
                        'different scopes, closure, true/false, literals of every kind, nested proper/improper lists, `_`, tuple compounds, recursive relations) are '
                        'translated by the real proc-macros, executed symbolically from MIR and compared with the reference semantics of the same AST.')
