"""C21 — LTerm equality, hashing and list operations are consistent (Engine M: MIR of lterm.rs / lvalue.rs / compound.rs).

Scenario EQ: two lazily symbolic terms u, v (shape chosen where the code inspects it; symbolic numbers and
booleans, two strings, [], variables, proper and improper lists, tuple compounds).  The real `==` must equal
structural equality of the two terms (variables by identity) in both argument orders, and when it says
"equal" the two hash transcripts (every primitive write of the real Hash impls) must coincide.
Transitivity follows from agreement with structural equality, which is an equivalence.

Scenario LIST: a lazily symbolic list (0..3 cells, proper or improper tail, elements of depth <= 1 including
`[]` elements and nested lists).  With `xs` the element sequence read off the term (improper tail as last
element): iter(), head/tail, is_list/is_empty/is_improper, Index, contains, count must agree with `xs`;
from_vec / from_array / collect / improper_from_vec rebuild a term equal to the original; extend appends.
"""
import os
import re
import time

import z3

import interp
import harness as H
import terms as TM
import mirgen
import parallel
import kanirun
from common import Report, log, say, VERIF, REPO
from values import Adt, Cell, Ref, Panic, NotEncodable, PathAbort, is_sym
from models import val, drain_all
import c01

FUNCS = ['lterm::{<LTerm as PartialEq>::eq, <LTerm as Hash>::hash, LTermIter::next, LTerm::{iter, head, tail, is_list, is_empty, is_improper, contains, '
         'from_vec, from_array, improper_from_vec, cons, empty_list}, <LTerm as Index<usize>>::index, <LTerm as FromIterator>::from_iter, <LTerm as Extend>::extend}',
         'lvalue::{<LValue as PartialEq>::eq, <LValue as Hash>::hash}', 'compound::{compound_eq, compound_hash, <(LTerm, LTerm)>::*}']
ASSUME = ['MIR executed by mirsym; Hasher = transcript of primitive writes (equal transcripts <=> equal hash under every hasher)',
          'terms: depth <= 2 (EQ) / lists of <= 3 cells with elements of depth <= 1 (LIST); leaves: symbolic isize and bool, strings "a"/"b", [], variables x, y']


def oracle_eq(sp, a, b):
    """z3 formula: views a and b are the same term (variables by identity)."""
    if a[0] == 'lazy' or b[0] == 'lazy':
        if a == b:
            return z3.BoolVal(True)      # the same un-inspected sub-term
        raise NotEncodable('oracle_eq lazy')
    if a[0] != b[0]:
        return z3.BoolVal(False)
    k = a[0]
    if k == 'num':
        return H.bv(a[1]) == H.bv(b[1])
    if k == 'bool':
        x, y = a[1], b[1]
        return (x if z3.is_expr(x) else z3.BoolVal(bool(x))) == (y if z3.is_expr(y) else z3.BoolVal(bool(y)))
    if k in ('str', 'char'):
        return z3.BoolVal(a[1] == b[1])
    if k == 'nil':
        return z3.BoolVal(True)
    if k == 'var':
        return z3.BoolVal(a[1] == b[1])
    if k in ('cons', 'pair'):
        return z3.And(oracle_eq(sp, a[1], b[1]), oracle_eq(sp, a[2], b[2]))
    raise NotEncodable('oracle_eq ' + k)


def to_z3(x):
    if z3.is_expr(x):
        return x
    if isinstance(x, bool):
        return z3.BoolVal(x)
    if isinstance(x, int):
        return z3.BitVecVal(x, 64)
    return x


def transcripts_equal(m, t1, t2):
    a, b = val(m, t1).fields, val(m, t2).fields
    if len(a) != len(b):
        return z3.BoolVal(False)
    conj = []
    for x, y in zip(a, b):
        kx, vx = x.fields
        ky, vy = y.fields
        if kx != ky:
            return z3.BoolVal(False)
        vx, vy = to_z3(val(m, vx)), to_z3(val(m, vy))
        if isinstance(vx, str) or isinstance(vy, str):
            if vx != vy:
                return z3.BoolVal(False)
            continue
        if z3.is_bv(vx) and z3.is_bv(vy) and vx.size() != vy.size():
            w = max(vx.size(), vy.size())
            vx, vy = z3.ZeroExt(w - vx.size(), vx), z3.ZeroExt(w - vy.size(), vy)
        conj.append(vx == vy)
    return z3.And(*conj) if conj else z3.BoolVal(True)


def hash_of(m, t):
    cell = Cell(Adt('Transcript', 0, ()))
    m.call('<LTerm<U, E> as Hash>::hash::<H>', [H.ref(t), Ref(cell)])
    return cell.v


def scenario_eq(m, cfg):
    sp = TM.TermSpace(m, names=cfg['names'], atoms=cfg['atoms'], compounds=cfg['compounds'])
    u = sp.fresh(cfg['depth'], 'u')
    v = sp.fresh(cfg['depth'], 'v')
    info = {'space': sp, 'u': u, 'v': v}
    m.last_info = info
    info['uv'] = m.call('<LTerm<U, E> as PartialEq>::eq', [H.ref(u), H.ref(v)])
    info['vu'] = m.call('<LTerm<U, E> as PartialEq>::eq', [H.ref(v), H.ref(u)])
    info['uu'] = m.call('<LTerm<U, E> as PartialEq>::eq', [H.ref(u), H.ref(u)])
    # only fully inspected terms can be hashed deterministically: hashing inspects everything anyway
    info['hu'] = hash_of(m, u)
    info['hv'] = hash_of(m, v)
    return info


def elems_of(view):
    xs, cur = [], view
    while cur[0] == 'cons':
        xs.append(cur[1])
        cur = cur[2]
    improper = cur[0] != 'nil'
    if improper:
        xs.append(cur)
    return xs, improper


def scenario_list(m, cfg):
    ctx = m.ctx
    sp = TM.TermSpace(m, names=cfg['names'], atoms=cfg['atoms'], compounds=cfg['compounds'])
    # list skeleton: n cells (fork), tail: [] or an improper non-list leaf (fork); elements lazily symbolic
    n = ctx.choose([True] * 4, 'list length')
    tail_kind = ctx.choose([True, True], 'tail') if n > 0 else 0
    elems = [sp.fresh(cfg['depth'], 'e%d' % i) for i in range(n)]
    if tail_kind == 0:
        tail = H.t_nil(m)
    else:
        tail = H.t_num(m, ctx.fresh_bv('tailnum')) if ctx.choose([True, True], 'improper tail kind') == 0 else sp.pool[sp.names[0]]
    l = tail
    for e in reversed(elems):
        l = H.t_cons(m, e, l)
    info = {'space': sp, 'l': l, 'n': n, 'improper': tail_kind == 1, 'checks': []}
    m.last_info = info
    chk = info['checks']

    def same(a, b):
        """real-code independent comparison of two term values (by view)"""
        return oracle_eq(sp, sp.view(a), sp.view(b))
    expected = elems + ([tail] if tail_kind == 1 else [])
    # iter()
    it = m.call('LTerm::<U, E>::iter', [H.ref(l)])
    got = [val(m, x) if False else x for x in drain_all(m, it)]
    chk.append(('iter yields %d elements, expected %d' % (len(got), len(expected)), z3.BoolVal(len(got) == len(expected))))
    for i, (g, e) in enumerate(zip(got, expected)):
        chk.append(('iter element %d' % i, same(g, e)))
    # predicates
    chk.append(('is_list', z3.BoolVal(m.call('LTerm::<U, E>::is_list', [H.ref(l)]) == (n > 0 or tail_kind == 0))))
    chk.append(('is_empty', z3.BoolVal(m.call('LTerm::<U, E>::is_empty', [H.ref(l)]) == (n == 0))))
    chk.append(('is_improper', z3.BoolVal(m.call('LTerm::<U, E>::is_improper', [H.ref(l)]) == (tail_kind == 1))))
    hd = val(m, m.call('LTerm::<U, E>::head', [H.ref(l)]))
    chk.append(('head is Some iff non-empty', z3.BoolVal((hd.var == 1) == (n > 0))))
    if hd.var == 1:
        chk.append(('head', same(hd.fields[0], elems[0])))
    # Index
    for i in range(len(expected)):
        chk.append(('index %d' % i, same(m.call('<LTerm<U, E> as Index<usize>>::index', [H.ref(l), i]), expected[i])))
    # contains: every element is contained
    for i, e in enumerate(expected):
        c = m.call('LTerm::<U, E>::contains::<LTerm<U, E>>', [H.ref(l), H.ref(e)])
        chk.append(('contains element %d' % i, c if is_sym(c) else z3.BoolVal(bool(c))))
    # rebuild
    if tail_kind == 0:
        rb = m.call('LTerm::<U, E>::from_vec', [Adt('Vec', 0, list(elems))])
        chk.append(('from_vec', same(rb, l)))
        ra = m.call('LTerm::<U, E>::from_array', [H.ref(Adt('[array]', 0, list(elems)))])
        chk.append(('from_array', same(ra, l)))
        from models import seq_iter
        rc = m.call('<LTerm<U, E> as FromIterator<LTerm<U, E>>>::from_iter::<Vec<LTerm<U, E>>>', [Adt('Vec', 0, list(elems))])
        chk.append(('collect', same(rc, l)))
        # extend a prefix by the rest
        k = n // 2
        pre = m.call('LTerm::<U, E>::from_vec', [Adt('Vec', 0, list(elems[:k]))])
        cell = Cell(pre)
        m.call('<LTerm<U, E> as Extend<LTerm<U, E>>>::extend::<Vec<LTerm<U, E>>>', [Ref(cell), Adt('Vec', 0, list(elems[k:]))])
        chk.append(('extend', same(cell.v, l)))
    elif n > 0:
        ri = m.call('LTerm::<U, E>::improper_from_vec', [Adt('Vec', 0, list(elems) + [tail])])
        chk.append(('improper_from_vec', same(ri, l)))
    # extending a clone must leave the original alone (cells of the spine may be shared)
    if tail_kind == 0:
        before = sp.view(l)
        cl = m.call('<LTerm<U, E> as Clone>::clone', [H.ref(l)])
        ccell = Cell(cl)
        m.call('<LTerm<U, E> as Extend<LTerm<U, E>>>::extend::<Vec<LTerm<U, E>>>', [Ref(ccell), Adt('Vec', 0, [H.t_num(m, 77)])])
        chk.append(('extend_of_a_clone_changes_the_original', oracle_eq(sp, sp.view(l), before)))
        chk.append(('extend_appends', z3.BoolVal(len(elems_of(sp.view(ccell.v))[0]) == n + 1)))
    # iter_mut / IndexMut see the same element sequence (on a private copy: they may un-share cells)
    mcell = Cell(m.call('<LTerm<U, E> as Clone>::clone', [H.ref(l)]))
    itm = m.call('LTerm::<U, E>::iter_mut', [Ref(mcell)])
    gotm = drain_all(m, itm)
    chk.append(('iter_mut yields %d elements, expected %d' % (len(gotm), len(expected)), z3.BoolVal(len(gotm) == len(expected))))
    for i, (g, e) in enumerate(zip(gotm, expected)):
        chk.append(('iter_mut element %d' % i, same(g, e)))
    for i in range(len(expected)):
        mc2 = Cell(m.call('<LTerm<U, E> as Clone>::clone', [H.ref(l)]))
        chk.append(('index_mut %d' % i, same(m.call('<LTerm<U, E> as IndexMut<usize>>::index_mut', [Ref(mc2), i]), expected[i])))
    return info


def check_task(task):
    cfg, mirp = task[0], task[1]
    initial = task[2] if len(task) > 2 else None
    frontier_target = task[3] if len(task) > 3 else None
    prog = H.program(mirp, REPO)
    mk, mods = H.machine_factory(prog)
    out = {'name': cfg['name'], 'issues': [], 'covers': set(), 'queries': 0, 'solver_s': 0.0, 'unknown': 0, 'called': set(), 'samples': []}

    def ask(ctx, *extra):
        out['queries'] += 1
        t = time.time()
        r, model = ctx.query(*extra, fresh=True, long_ms=60000)
        out['solver_s'] += time.time() - t
        if r == z3.unknown:
            out['unknown'] += 1
        return r, model

    def term_src(info, t, model):
        sp = info['space']
        return TM.rust_of_view(sp, sp.view(t), model, TM.Sigma(sp))

    def add_issue(key, what, rust_test):
        if not any(k == key for k, *_ in out['issues']):
            out['issues'].append((key, what, rust_test))

    def on_path(r):
        ctx = r.ctx
        out['called'].update(r.machine.called)
        if r.status in ('notenc', 'abort'):
            return
        info = r.value if r.status == 'ok' else getattr(r.machine, 'last_info', None)
        if info is None:
            return
        sp = info['space']
        if cfg['kind'] == 'eq':
            if r.status == 'panic':
                rr, model = ask(ctx)
                u, v = term_src(info, info['u'], model), term_src(info, info['v'], model)
                add_issue('panic', '== / hash panics: %s on %s, %s' % (r.detail[:80], u, v), eq_test(u, v, None, None, sp.names))
                return
            m = r.machine
            want = oracle_eq(sp, sp.view(info['u']), sp.view(info['v']))
            out['covers'].add('eq')
            for key, got in (('eq', info['uv']), ('eq-swapped', info['vu'])):
                g = got if is_sym(got) else z3.BoolVal(bool(got))
                rr, model = ask(ctx, g != want)
                if rr == z3.sat:
                    u, v = term_src(info, info['u'], model), term_src(info, info['v'], model)
                    exp = z3.is_true(model.eval(want, model_completion=True))
                    add_issue(key, '`%s == %s` is %s but the terms are %sstructurally equal' % (((u, v) if key == 'eq' else (v, u)) + (not exp, '' if exp else 'not ')),
                              eq_test(u, v, exp, None, sp.names, swapped=(key != 'eq')))
            g = info['uu'] if is_sym(info['uu']) else z3.BoolVal(bool(info['uu']))
            rr, model = ask(ctx, z3.Not(g))
            if rr == z3.sat:
                u = term_src(info, info['u'], model)
                add_issue('reflexive', '`t == t` is false for t = %s' % u, eq_test(u, u, True, None, sp.names))
            rr, model = ask(ctx, want, z3.Not(transcripts_equal(m, info['hu'], info['hv'])))
            if rr == z3.sat:
                u, v = term_src(info, info['u'], model), term_src(info, info['v'], model)
                add_issue('hash', 'equal terms %s and %s hash differently' % (u, v), eq_test(u, v, True, True, sp.names))
            if z3.is_true(z3.simplify(want)) or True:
                out['covers'].add('hash')
        else:
            if r.status == 'panic':
                rr, model = ask(ctx)
                l = term_src(info, info['l'], model)
                add_issue('panic', 'list operation panics on %s: %s' % (l, r.detail[:80]), list_test(l, sp.names))
                return
            out['covers'].add('list%d' % info['n'])
            for what, cond in info['checks']:
                rr, model = ask(ctx, z3.Not(cond))
                if rr == z3.sat:
                    l = term_src(info, info['l'], model)
                    add_issue('list-' + re.sub(r'[^a-z_]+', '_', what.split(' ')[0]), 'on the list %s: %s disagrees with the element sequence' % (l, what), list_test(l, sp.names))
        if len(out['samples']) < 2 and r.status == 'ok':
            out['samples'].append({'config': cfg['name'], 'terms': [str(sp.view(info[k]))[:100] for k in ('u', 'v', 'l') if k in info]})
    scen = scenario_eq if cfg['kind'] == 'eq' else scenario_list
    stats = interp.explore(mk, lambda m: scen(m, cfg), on_path=on_path, time_budget=cfg.get('budget', 1200), initial=initial, frontier_target=frontier_target)
    out['frontier'] = stats['frontier']
    out['stats'] = {k: stats[k] for k in ('paths', 'ok', 'panic', 'notenc', 'abort', 'solver_calls', 'steps', 'truncated', 'wall_s')}
    out['notenc_reasons'] = stats['notenc_reasons']
    return out


PRE = '''use proto_vulcan::prelude::*;
use std::collections::hash_map::DefaultHasher;
use std::hash::{Hash, Hasher};
type T = LTerm<DefaultUser, DefaultEngine<DefaultUser>>;
fn h(t: &T) -> u64 { let mut s = DefaultHasher::new(); t.hash(&mut s); s.finish() }
fn elems(t: &T) -> Vec<T> {
    // element sequence by plain structural recursion (independent of LTermIter)
    let mut out = vec![]; let mut cur = t.clone();
    loop {
        let next = match (cur.head(), cur.tail()) { (Some(hd), Some(tl)) => { out.push(hd.clone()); tl.clone() } _ => break };
        cur = next;
    }
    if !cur.is_empty() { out.push(cur); }
    out
}
'''


def lets(names):
    return ''.join('    let %s: T = LTerm::var("%s");\n' % (n, n) for n in names)


def tsrc(s):
    # tuple compounds cannot be nested in lterm! lists: build them explicitly
    return 'lterm!(%s)' % s if '(' not in s else None


def eq_test(u, v, expected, hash_too, names, swapped=False):
    a, b = (v, u) if swapped else (u, v)
    if tsrc(a) is None or tsrc(b) is None:
        return None
    body = lets(names) + '    let a: T = %s;\n    let b: T = %s;\n' % (tsrc(a), tsrc(b))
    if expected is None:
        body += '    let _ = a == b; let _ = h(&a); let _ = h(&b);\n'
    else:
        body += '    assert_eq!(a == b, %s, "structural equality of {} and {}", a, b);\n' % ('true' if expected else 'false')
    if hash_too:
        body += '    assert_eq!(h(&a), h(&b), "equal terms must hash equally");\n'
    return PRE + '\n#[test]\nfn replay() {\n' + body + '}\n'


def list_test(l, names):
    if tsrc(l) is None:
        return None
    body = lets(names) + '    let l: T = %s;\n' % tsrc(l)
    body += '''    let xs = elems(&l);
    let it: Vec<T> = l.iter().cloned().collect();
    assert_eq!(it.len(), xs.len(), "iter() length on {}", l);
    for (a, b) in it.iter().zip(xs.iter()) { assert!(a == b, "iter() element on {}", l); }
    assert_eq!(l.iter().count(), xs.len());
    { let mut c = l.clone(); let n = c.iter_mut().count(); assert_eq!(n, xs.len(), "iter_mut() length on {}", l); }
    { let mut c = l.clone(); for (a, b) in c.iter_mut().zip(xs.iter()) { assert!(&*a == b, "iter_mut() element on {}", l); } }
    for (i, x) in xs.iter().enumerate() { let mut c = l.clone(); assert!(&c[i] == x); let r: &mut T = &mut c[i]; assert!(&*r == x, "index_mut {} on {}", i, l); }
    if l.is_list() && !l.is_improper() { let mut c = l.clone(); c.extend(vec![LTerm::from(77)]); assert!(elems(&l) == xs, "extend of a clone changed the original {}", l); assert_eq!(elems(&c).len(), xs.len() + 1); }
    for (i, x) in xs.iter().enumerate() { assert!(&l[i] == x, "index {} on {}", i, l); assert!(l.contains(x), "contains on {}", l); }
    if !l.is_improper() && l.is_list() {
        let rebuilt: T = LTerm::from_vec(xs.clone());
        assert!(rebuilt == l, "from_vec(elements) on {}", l);
        let collected: T = xs.iter().cloned().collect();
        assert!(collected == l, "collect on {}", l);
        let k = xs.len() / 2;
        let mut pre: T = LTerm::from_vec(xs[..k].to_vec());
        pre.extend(xs[k..].to_vec());
        assert!(pre == l, "extend on {}", l);
    } else if l.is_improper() {
        let rebuilt: T = LTerm::improper_from_vec(xs.clone());
        assert!(rebuilt == l, "improper_from_vec(elements) on {}", l);
    }
'''
    return PRE + '\n#[test]\nfn replay() {\n' + body + '}\n'


def configs(tier):
    wide = ('num', 'nil', 'bool', 'str:a', 'str:b')
    cf = []
    if tier == 'quick':
        cf.append(dict(name='eq-d2-lists', kind='eq', depth=2, names=('x',), atoms=('num', 'nil'), compounds=('cons',), frontier=1500))
        cf.append(dict(name='eq-d1-wide', kind='eq', depth=1, names=('x', 'y'), atoms=wide, compounds=('cons', 'pair'), frontier=1500))
        cf.append(dict(name='list-d1', kind='list', depth=1, names=('x',), atoms=('num', 'nil'), compounds=('cons',), frontier=1500))
    else:
        cf.append(dict(name='eq-d2-lists', kind='eq', depth=2, names=('x', 'y'), atoms=('num', 'nil'), compounds=('cons',), frontier=3000, budget=6000))
        cf.append(dict(name='eq-d2-pairs', kind='eq', depth=2, names=('x',), atoms=('num', 'nil'), compounds=('cons', 'pair'), frontier=3000, budget=6000))
        cf.append(dict(name='eq-d1-wide', kind='eq', depth=1, names=('x', 'y'), atoms=wide, compounds=('cons', 'pair'), frontier=1500))
        cf.append(dict(name='list-d1-wide', kind='list', depth=1, names=('x', 'y'), atoms=wide, compounds=('cons',), frontier=3000, budget=6000))
    return cf


def replay(path):
    out = kanirun.replay_case(path)
    for prof, (okk, tail) in out.items():
        say('replay[%s]: %s %s' % (prof, 'REPRODUCED' if okk else 'not reproduced', tail))
    return 1 if any(okk for okk, _ in out.values()) else 0


def run(tier):
    rep = Report('C21', tier, 'other', 'mirsym')
    rep.functions += FUNCS
    rep.assumptions += ASSUME
    mirp = mirgen.dump_mir()
    H.program(mirp, REPO)
    called = set()
    tot_p = tot_s = 0
    for cfg in configs(tier):
        st, res = c01.run_config(cfg, mirp, task_fn=check_task)
        name = 'C21.%s' % cfg['name']
        if st != 'ok':
            rep.obligation(name, 'inconclusive', detail='worker error: ' + res[:300])
            continue
        called |= res['called']
        tot_p += res['stats']['paths']
        tot_s += res['stats']['steps']
        bound = dict(depth=cfg['depth'], alphabet=list(cfg['atoms']) + list(cfg['compounds']), variables=list(cfg['names']), paths=res['stats']['paths'],
                     z3_queries=res['queries'] + res['stats']['solver_calls'], solver_s=round(res['solver_s'], 2), wall_s=res['stats']['wall_s'])
        if res['stats']['notenc'] or res['stats']['truncated'] or res['unknown']:
            rep.obligation(name, 'inconclusive', detail='notenc=%s unknown=%d truncated=%s' % (list(res['notenc_reasons'].items())[:3], res['unknown'], res['stats']['truncated']), **bound)
            continue
        if not res['covers']:
            rep.obligation(name, 'broken', detail='no path completed', **bound)
            rep.broke('%s: no path completed' % name)
            continue
        status = 'holds'
        for (key, what, src) in res['issues']:
            fullkey = '%s | %s' % (cfg['name'], key)
            if src is None:
                rep.obligation(name + '.' + key, 'inconclusive', detail='counterexample not expressible as a native test (compound inside a list literal): ' + what)
                continue
            case = os.path.join(VERIF, 'replay', 'cases', 'C21-%s.rs' % re.sub(r'[^A-Za-z0-9]+', '_', fullkey))
            os.makedirs(os.path.dirname(case), exist_ok=True)
            open(case, 'w').write('// Counterexample found by mirsym/z3 for property C21: %s\n// Replay: /verif/check C21 --replay %s\n' % (what.replace('\n', ' '), case) + src)
            outc = kanirun.replay_case(case)
            rep.extra['replayed'] = rep.extra.get('replayed', 0) + 1
            reproduced = any(okk for okk, _ in outc.values())
            tail = '; '.join('%s: %s' % (p, t[:160].replace('\n', ' ')) for p, (okk, t) in outc.items())
            if reproduced:
                new = rep.violation(fullkey, what + ' [native replay: %s]' % tail, case)
                status = 'violated' if new else ('known' if status == 'holds' else status)
            else:
                status = 'broken'
                rep.broke('ENCODING-MISMATCH %s: %s | %s' % (fullkey, what, tail))
        rep.obligation(name, status, issues=[i[0] for i in res['issues']], **bound)
        rep.samples += res['samples'][:1]
    rep.functions += sorted(called)
    rep.extra['states'] = tot_p
    rep.extra['transitions'] = tot_s
    try:
        os.remove(mirp)
    except OSError:
        pass
    return rep.finish('Symbolic execution of the MIR of LTerm\'s PartialEq / Hash implementations and list API on lazily initialised symbolic terms; z3 decides per path '
                      'that `==` coincides with structural equality (both argument orders, reflexive), that equal terms produce identical hash transcripts, and that '
                      'every list operation agrees with the element sequence of the term. Bounded by term depth / list length; not a proof.',
                      trusted_base=['mirsym MIR executor + std models', 'z3 5.1', 'rustc nightly MIR dump'],
                      checker_cmd='cargo +nightly rustc --lib -- -Zunpretty=mir ; python3-vt mirsym (z3)')
