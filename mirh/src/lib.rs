//! Program templates for mirsym: surface programs written with the real macros; their MIR is
//! dumped together with the library's and executed symbolically (integer parameters are solver
//! variables).
#![allow(dead_code, unused_imports, unused_variables)]
use proto_vulcan::prelude::*;
use proto_vulcan::lterm::LTerm;

type T = LTerm<DefaultUser, DefaultEngine<DefaultUser>>;

pub type R = proto_vulcan::lresult::LResult<DefaultUser, DefaultEngine<DefaultUser>>;

pub fn p_conde2(a: isize, b: isize, c: isize, limit: usize) -> Vec<Vec<R>> {
    let (a, b, c): (T, T, T) = (LTerm::from(a), LTerm::from(b), LTerm::from(c));
    let query = proto_vulcan_query!(|q| {
        conde {
            q == a,
            q == b,
        },
        q != c
    });
    let mut out = vec![];
    let mut it = query.run();
    while out.len() < limit {
        match it.next() {
            Some(r) => out.push(vec![r.q]),
            None => break,
        }
    }
    out
}
